#!/venv/bin/python
"""CLI of the verification machinery.

    check.py <ID> [--tier quick|thorough] [--replay FILE] [--shards N] [--scale X]
                  [--only STREAM[,STREAM]]

exit 0: property held on everything explored (KNOWN-FINDING lines may be printed)
exit 1: violation(s); a line "VIOLATION property=<ID> replay=<path>" per root cause
exit 2: harness error / vacuous run (never a VIOLATION line)
"""
import argparse
import os
import sys

os.environ.setdefault("PYTHONHASHSEED", "0")
if os.environ.get("PYTHONHASHSEED") != "0" or not os.environ.get("_VERIF_REEXEC"):
    # make hash order deterministic: re-exec once with PYTHONHASHSEED=0
    os.environ["PYTHONHASHSEED"] = "0"
    os.environ["_VERIF_REEXEC"] = "1"
    os.environ.setdefault("MPLBACKEND", "Agg")
    os.environ.setdefault("TQDM_DISABLE", "1")
    os.environ.setdefault("OMP_NUM_THREADS", "1")
    os.environ.setdefault("OPENBLAS_NUM_THREADS", "1")
    os.execv(sys.executable, [sys.executable] + sys.argv)

HERE = os.path.dirname(os.path.abspath(__file__))
sys.path.insert(0, HERE)
sys.dont_write_bytecode = True


def main():
    ap = argparse.ArgumentParser()
    ap.add_argument("pid")
    ap.add_argument("--tier", default=os.environ.get("VERIF_TIER") or "quick",
                    choices=["quick", "thorough"])
    ap.add_argument("--replay")
    ap.add_argument("--shards", type=int)
    ap.add_argument("--scale", type=float, default=1.0)
    ap.add_argument("--only")
    a = ap.parse_args()
    try:
        seed = int(os.environ.get("VERIF_SEED") or "1")
    except ValueError:
        seed = 1
    from vlib import runner

    try:
        if a.replay:
            return runner.replay_file(a.pid.upper(), a.replay)
        only = set(a.only.split(",")) if a.only else None
        return runner.run_property(a.pid.upper(), a.tier, seed, a.shards, a.scale, only)
    except runner.HarnessError as e:
        print("HARNESS ERROR: {}".format(e), file=sys.stderr)
        return 2
    except Exception:
        import traceback

        print("HARNESS ERROR:\n" + traceback.format_exc(), file=sys.stderr)
        return 2


if __name__ == "__main__":
    sys.exit(main())
