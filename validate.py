#!/opt/veriftools/pyvenv/bin/python
"""Validate MANIFEST.json and evidence/*.json against the schemas (tooling venv has jsonschema)."""
import json, glob, sys, jsonschema
ok = True
m = json.load(open("/verif/MANIFEST.json"))
jsonschema.validate(m, json.load(open("/root/.vp/MANIFEST.schema.json")))
es = json.load(open("/root/.vp/EVIDENCE.schema.json"))
for c in m["checks"]:
    try:
        jsonschema.validate(json.load(open("/verif/" + c["evidence_file"])), es)
    except Exception as e:
        ok = False
        print("BAD", c["evidence_file"], str(e)[:300])
print("manifest valid; evidence", "ok" if ok else "PROBLEMS")
sys.exit(0 if ok else 1)
