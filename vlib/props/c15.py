"""C15 - a rejected edit leaves the system untouched."""

from vlib import machine as M
from vlib.runner import Stream

ID = "C15"
LEVEL = "fault_enumeration"
RULE = (
    "The edit-history state machine of C14 (same rules: every class of rejected call is "
    "generated on purpose - unknown and rail-valued targets, duplicate names/rails, rail "
    "equal to a name, incompatible kinds, Source as child, child under a load, second mux, "
    "list parent for a non-mux, duplicate parents, Source<->other and PMux<->other "
    "replacement, last-source and source-without-children deletion, one phase, reserved "
    "phase name, wrongly typed phase configuration, phases on RLoss/VLoss). Before every "
    "call a snapshot is taken: tree() text, params(limits=True), phases(), the save() "
    "document, solve() table or its exception type, plus deep copies of the registries, the "
    "graph's node/edge sets and every component's parameters; whenever the call raises, the "
    "snapshot after it must be identical, and the history continues so later calls run on "
    "the same state. Non-trivial: a rejection on a system of >= 4 components; distinct by "
    "history hash. The per-class counts of rejected calls are in coverage.classes."
)
ASSUMPTIONS = [
    "a call that raises any exception counts as rejected; the exception type is recorded but "
    "only a changed snapshot is a violation",
    "I10: set_comp_phases does not validate the content of a list/dict, so no such call is "
    "expected to raise",
]


def body(ops, stats):
    M.replay_ops(ops, {"C15"}, stats)


def streams(tier, avoid):
    return [Stream("histories", body, machine=M.make_machine({"C15"}, tier),
                   n={"quick": 150, "thorough": 400}, steps={"quick": 25, "thorough": 40},
                   reduce=M.reduce_ops, shrink=(tier == "thorough"))]
