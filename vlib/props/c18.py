"""C18 - batt_life() steps the battery with the solved current, phase by phase."""

import warnings

from hypothesis import strategies as st

from vlib import build as B
from vlib import gen as G
from vlib import spec as S
from vlib.runner import Fail, Skip, Stream, jhash
from vlib.table import Table, _plain

ID = "C18"
LEVEL = "exploration"
RULE = (
    "Generated systems with 1-3 sources (the battery is any of them, positive), with and "
    "without 2-4 load phases (the battery itself sometimes inactive in a phase), and scripted "
    "battery models given as data: initial capacity sized for 2..30 phase cycles (or, "
    "without phases, a voltage curve that reaches the cutoff after 5..60 of the ~1000 "
    "steps), open-circuit voltage and resistance piecewise linear in the state of charge, "
    "depletion cap -= t*i/3600. The callbacks record every argument. Oracle = a model of the "
    "loop: call k receives the duration of phase k mod n in declared order (no phases: "
    "initial capacity/1000/current*3600 s) and the battery's Iout of a freshly built copy of "
    "the system with Source(vo, rs) = the battery's present state, solved for that phase "
    "(3e-5 relative); the log is the probed state plus every returned state with cap > 0 and "
    "volt > cutoff, with time = running sum of the handed durations, strictly increasing, "
    "ending at the first violating state, after which nothing is called. A non-Source or "
    "unknown battery name => ValueError. Non-trivial: >= 2 full phase cycles (or >= 5 steps), "
    "battery voltage changing between steps and another source present or >= 4 components; "
    "distinct by (spec hash, model)."
)
ASSUMPTIONS = [
    "batt_life iterates with its internal tolerances (vtol 1e-5, itol 1e-6): the reference "
    "current comes from the public solve() with the same tolerances and is compared at 3e-5",
    "battery voltages positive; the cutoff is below the initial voltage",
]


def piecewise(soc, pts):
    """pts: [(soc, value)] sorted by soc ascending; linear, clamped."""
    if soc <= pts[0][0]:
        return pts[0][1]
    for (a, va), (b, vb) in zip(pts, pts[1:]):
        if soc <= b:
            return va + (soc - a) / (b - a) * (vb - va)
    return pts[-1][1]


class Runaway(BaseException):
    """the depletion loop does not end although the model's capacity must run out"""


class Battery:
    def __init__(self, m):
        self.m = m
        self.cap = m["c0"]
        self.calls = []  # ("probe",) / ("deplete", t, i, returned)

    def state(self):
        soc = max(self.cap, 0.0) / self.m["c0"]
        return (self.cap, piecewise(soc, self.m["volt"]), piecewise(soc, self.m["res"]))

    def _ret(self, s_):
        """The form in which the model hands its state to batt_life: a fresh tuple / list /
        array, or one list object that the model keeps and updates in place (batt_life must
        have logged the values it was given, not a reference to the model's state)."""
        how = self.m.get("ret", "tuple")
        if how == "shared":
            if not hasattr(self, "buf"):
                self.buf = [0.0, 0.0, 0.0]
            self.buf[:] = s_
            return self.buf
        if how == "list":
            return list(s_)
        if how == "array":
            import numpy as np
            return np.array(s_)
        return s_

    def pfunc(self):
        s_ = self.state()
        self.calls.append(("probe", s_))
        return self._ret(s_)

    def dfunc(self, t, i):
        if len(self.calls) > self.m.get("max_calls", 5000):
            raise Runaway()
        self.cap -= t * i / 3600.0
        s_ = self.state()
        self.calls.append(("deplete", float(t), float(i), s_))
        return self._ret(s_)


def battery_current(spec, batt, volt, rs, phase):
    s2 = S.clone(spec)
    n = S.node_map(s2)[batt]
    n["params"]["vo"] = volt
    n["params"]["rs"] = rs
    sys = B.build(s2)
    kw = {"vtol": 1e-5, "itol": 1e-6}
    if phase:
        kw["phase"] = phase
    df = B.solve(sys, **kw)
    t = Table(df)
    return t.by[(phase, batt)]["Iout (A)"]


def body(case, stats):
    spec, m, bi = case["spec"], case["model"], case["battery"]
    srcs = [s for s in S.sources(spec) if S.node_map(spec)[s]["params"]["vo"] > 0]
    if not srcs:
        raise Skip("no_positive_source")
    batt = srcs[bi % len(srcs)]
    node = S.node_map(spec)[batt]
    v0 = node["params"]["vo"]
    # scale the model to this battery: voltages relative to the source's vo, capacity from
    # the nominal current and the cycle / step target
    phases = list(spec["phases"])
    try:
        inom = [battery_current(spec, batt, v0, m["res"][-1][1], p) for p in (phases or [""])]
    except (ValueError, RuntimeError):
        raise Skip("not_solved")
    volt = [(s_, f * v0) for s_, f in m["volt"]]
    if phases:
        per_cycle = sum(spec["phases"][p] * i for p, i in zip(phases, inom)) / 3600.0
        if per_cycle <= 0:
            raise Skip("battery_supplies_no_current")
        c0 = per_cycle * m["cycles"]
        cutoff = m["cut"] * v0 * min(f for _s, f in m["volt"]) * 0.9
        if cutoff >= volt[-1][1]:
            cutoff = 0.5 * volt[-1][1]
    else:
        if inom[0] <= 0:
            raise Skip("battery_supplies_no_current")
        c0 = m["c0_abs"]
        # voltage falls linearly with the state of charge: cutoff after about `steps` steps
        soc_cut = 1.0 - m["steps"] / 1000.0
        cutoff = piecewise(soc_cut, volt)
        if cutoff >= volt[-1][1]:
            # flat / plateau curve: the cutoff would stop the run at once; end by capacity
            # of a small cell instead (about `steps` of the ~1000 steps are too many: use a
            # steep last segment)
            volt = [(0.0, 0.5 * volt[-1][1]), (max(soc_cut - 0.002, 0.0), 0.5 * volt[-1][1]),
                    (soc_cut, volt[-1][1]), (1.0, volt[-1][1])]
            cutoff = 0.75 * volt[-1][1]
    expect_calls = (m["cycles"] * len(phases)) if phases else 1000
    model = {"c0": c0, "volt": volt, "res": m["res"], "max_calls": int(20 * expect_calls) + 50,
             "ret": m.get("ret", "tuple")}
    stats.cls("callback_returns:" + model["ret"])
    bat = Battery(model)
    sys = B.build(spec)
    tags = {"run": 7}
    try:
        with warnings.catch_warnings():
            warnings.simplefilter("ignore")
            log = sys.batt_life(batt, cutoff=cutoff, pfunc=bat.pfunc, dfunc=bat.dfunc,
                                tags=tags)
    except (ValueError, RuntimeError) as e:
        stats.cls("batt_life_raised:" + type(e).__name__)
        raise Skip("not_solved")
    except Runaway:
        raise Fail("runaway", "batt_life made more than {} deplete calls on a battery of {} Ah "
                   "whose capacity must run out much earlier; last calls {}".format(
                       model["max_calls"], model["c0"], bat.calls[-2:]))
    calls = bat.calls
    if not calls or calls[0][0] != "probe":
        raise Fail("first_call", "first callback call is {}".format(calls[:1]))
    if any(c[0] == "probe" for c in calls[1:]):
        raise Fail("probe_repeated", "probe callback called {} times".format(
            sum(1 for c in calls if c[0] == "probe")))
    state = calls[0][1]
    memo = {}  # reference currents by (battery voltage, resistance, phase)
    exp_log = [(0.0,) + tuple(state)]
    k = 0
    dep = calls[1:]
    tsum = 0.0
    volt_changed = False
    while state[0] > 0.0 and state[1] > cutoff:
        if k >= len(dep):
            raise Fail("stopped_early",
                       "after {} deplete calls the battery is at cap {!r} Ah / {!r} V (cutoff "
                       "{!r}) but no further call was made".format(k, state[0], state[1], cutoff))
        _d, t_got, i_got, ret = dep[k]
        ph = phases[k % len(phases)] if phases else ""
        key = (float(state[1]), float(state[2]), ph)
        if key not in memo:
            try:
                memo[key] = battery_current(spec, batt, state[1], state[2], ph)
            except (ValueError, RuntimeError):
                raise Skip("reference_not_solved")
        i_exp = memo[key]
        if abs(i_got - i_exp) > 3e-5 * abs(i_exp) + 1e-9:
            raise Fail("current",
                       "deplete call {} (phase {!r}, battery {!r} V / {!r} Ohm): current "
                       "{!r}, steady-state battery current {!r}".format(
                           k, ph, state[1], state[2], i_got, i_exp))
        if phases:
            t_exp = spec["phases"][ph]
            ttol = 1e-12 * t_exp
        else:
            t_exp = model["c0"] / 1000.0 / i_got * 3600.0
            ttol = 1e-9 * t_exp
        if abs(t_got - t_exp) > ttol:
            raise Fail("duration",
                       "deplete call {} (phase {!r}): time {!r}, expected {!r}".format(
                           k, ph, t_got, t_exp))
        tsum += t_got
        if ret[1] != state[1]:
            volt_changed = True
        state = ret
        if state[0] > 0.0 and state[1] > cutoff:
            exp_log.append((tsum,) + tuple(state))
        k += 1
    if len(dep) != k:
        raise Fail("called_after_end",
                   "{} deplete calls but the run ended (cap {!r}, volt {!r}, cutoff {!r}) "
                   "after {}".format(len(dep), state[0], state[1], cutoff, k))
    rows = [_plain(r) for r in log.to_dict("records")]
    got = [(r["Time (s)"], r["Capacity (Ah)"], r["Voltage (V)"], r["Resistance (Ohm)"])
           for r in rows]
    if len(got) != len(exp_log):
        raise Fail("log.length", "log has {} rows, expected {} (initial state + accepted "
                   "states); last rows {} vs {}".format(len(got), len(exp_log), got[-2:],
                                                        exp_log[-2:]))
    for j, (g, e) in enumerate(zip(got, exp_log)):
        for a, b, name in zip(g, e, ("Time", "Capacity", "Voltage", "Resistance")):
            if abs(a - b) > 1e-9 * max(abs(a), abs(b)):
                raise Fail("log." + name.lower(),
                           "log row {}: {} {!r}, expected {!r}".format(j, name, a, b))
    times = [g[0] for g in got]
    if any(b <= a for a, b in zip(times, times[1:])):
        raise Fail("log.time_not_increasing", "times {}".format(times[:10]))
    if any(r.get("run") != 7 for r in rows) or tags != {"run": 7}:
        raise Fail("log.tags", "tags column missing or tags mutated")
    stats.cls("with_phases" if phases else "no_phases")
    stats.cls("deplete_calls", k)
    stats.cls("ended_by:" + ("capacity" if state[0] <= 0.0 else "cutoff"))
    cycles_ok = (k >= 2 * len(phases)) if phases else (k >= 5)
    if cycles_ok and volt_changed and (len(S.sources(spec)) >= 2 or len(spec["nodes"]) >= 4):
        stats.nontriv(jhash([spec["nodes"], spec["phases"], m, bi]),
                      sample={"battery": batt, "cutoff": cutoff, "model": model,
                              "deplete_calls": k, **S.summarize(spec)})


def body_reject(case, stats):
    spec, which = case["spec"], case["which"]
    sys = B.build(spec)
    non = [n["name"] for n in spec["nodes"] if n["kind"] != "Source"]
    rails = [n["rail"] for n in spec["nodes"] if n["kind"] != "Source" and n["rail"]]
    if which == "unknown" or not non:
        name = "no such battery"
    elif which == "rail" and rails:
        name = rails[case["pick"] % len(rails)]
    else:
        name = non[case["pick"] % len(non)]
    called = []
    before = sys.params().to_dict("records")

    def pf():
        called.append("p")
        return (1.0, 3.7, 0.1)

    def df(t, i):
        called.append("d")
        return (0.0, 0.0, 0.1)

    try:
        with warnings.catch_warnings():
            warnings.simplefilter("ignore")
            sys.batt_life(name, cutoff=1.0, pfunc=pf, dfunc=df)
    except ValueError:
        stats.cls("rejected:" + which)
        if sys.params().to_dict("records") != before:
            raise Fail("reject.changed", "rejected batt_life({!r}) changed params()".format(name))
        stats.nontriv(jhash([spec["nodes"], name]), sample={"battery": name})
        return
    except Exception as e:
        raise Fail("reject.exception", "batt_life({!r}) raised {}: {}".format(
            name, type(e).__name__, e))
    raise Fail("reject.accepted", "batt_life({!r}) ran although {!r} is not a Source".format(
        name, name))


def _models():
    res = st.lists(st.tuples(st.floats(0.0, 1.0), G.logf(1e-3, 0.2)), min_size=2,
                   max_size=4).map(lambda l: sorted(l))
    sloped = st.lists(st.floats(0.75, 1.0), min_size=2, max_size=4).map(
        lambda l: [(i / (len(l) - 1), v) for i, v in enumerate(sorted(l))])
    # plateau cells: the voltage repeats exactly while the impedance keeps changing
    plateau = st.tuples(st.floats(0.75, 0.95), st.floats(0.1, 0.6)).map(
        lambda t: [(0.0, t[0]), (t[1], 1.0), (1.0, 1.0)])
    flat = st.floats(0.8, 1.0).map(lambda v: [(0.0, v), (1.0, v)])
    volt = st.one_of(sloped, sloped, plateau, flat)
    return st.fixed_dictionaries({
        "volt": volt, "res": res.map(lambda l: [(s_, r) for s_, r in _dedup(l)]),
        "cycles": st.floats(2.0, 30.0), "cut": st.floats(0.5, 1.02),
        "steps": st.integers(5, 60), "c0_abs": G.logf(0.01, 2000.0),
        "ret": st.sampled_from(["tuple", "tuple", "list", "array", "shared", "shared"]),
    })


def _dedup(l):
    out, seen = [], set()
    for s_, r in l:
        if s_ not in seen:
            seen.add(s_)
            out.append((s_, r))
    if len(out) < 2:
        out = [(0.0, out[0][1]), (1.0, out[0][1])]
    return out


def _reduce(case):
    for c in S.reductions(case["spec"]):
        yield {**case, "spec": c}


def streams(tier, avoid):
    big = tier == "thorough"
    mn = 9 if big else 6
    common = dict(max_nodes=mn, min_nodes=2, avoid=avoid, f_max=0.04, negative=False,
                  zero_loads=False)
    o1 = G.Opts(phases=True, **common)
    o2 = G.Opts(**common)
    c1 = st.fixed_dictionaries({"spec": G.systems(o1), "model": _models(),
                                "battery": st.integers(0, 5)})
    c2 = st.fixed_dictionaries({"spec": G.systems(o2), "model": _models(),
                                "battery": st.integers(0, 5)})
    cr = st.fixed_dictionaries({"spec": G.systems(G.Opts(rails=True, **common)),
                                "which": st.sampled_from(["nonsource", "unknown", "rail"]),
                                "pick": st.integers(0, 20)})
    return [
        Stream("phases", body, strategy=c1, n={"quick": 60, "thorough": 500}, reduce=_reduce),
        Stream("no_phases", body, strategy=c2, n={"quick": 40, "thorough": 300},
               reduce=_reduce),
        Stream("not_a_source", body_reject, strategy=cr, n={"quick": 60, "thorough": 400}),
    ]
