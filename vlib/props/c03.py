"""C03 - solve() returns only converged, finite, physical steady states, else raises."""

import contextlib
import io
import re

from hypothesis import strategies as st

from vlib import build as B
from vlib import gen as G
from vlib import refmodel as R
from vlib import rowcheck as RC
from vlib import spec as S
from vlib.props.c01 import classify
from vlib.runner import Fail, Stream, jhash
from vlib.table import Table

ID = "C03"
LEVEL = "exploration"
RULE = (
    "Stream 'overload': systems whose series elements drop up to 300 % of their nominal "
    "input (constant-power/current loads behind too much resistance) solved with drawn "
    "vtol/itol in {1e-3,1e-4,1e-6,1e-9} and maxiter in {1,2,3,5,20,100,300}. Stream "
    "'modest': drops <= 15 %, maxiter up to 10000. Stream 'series_overload' (exhaustive axis): "
    "every passive series kind (source resistance, RLoss, VLoss, PSwitch, PMux scalar/list, "
    "diode and MOSFET bridge) x load kind x drop fraction in {0.5..3.5} around 100 % x "
    "polarity in a three-node chain. Oracle: outcome is a table, RuntimeError "
    "or ValueError; a table is finite, every row reproduces under one more evaluation of "
    "its law within the requested tolerance, passive series elements neither invert nor "
    "amplify, sweeps <= maxiter+1 and 'Tolerances met after N' has N <= maxiter. Stream "
    "'finds': when the independent reference solver finds a steady state with every series "
    "drop <= 10 %, solve() with defaults must return it (1e-4 relative). Non-trivial: "
    "(returned, >= 4 sweeps, depth >= 3) or (raised on a system the reference calls "
    "overloaded); distinct by spec hash + settings."
)
ASSUMPTIONS = [
    "I2: 'terminates within maxiter sweeps' = at most maxiter+1 sweeps are executed and no "
    "result first met after sweep maxiter is returned",
    "sweeps are counted by wrapping System._fwd_prop from the harness process",
    "'modest' = every series element (source resistance, RLoss, VLoss, switch, mux, "
    "rectifier) drops <= 10 % of its input in the reference steady state",
    "Rectifier rs is scalar (list-valued rs is known finding F8, probed separately)",
]

TOLS = [1e-3, 1e-4, 1e-6, 1e-9]


def run_solve(sys, **kw):
    """Returns (outcome, payload, sweeps, N) with outcome in table|RuntimeError|ValueError|other."""
    from sysloss.system import System

    count = {"n": 0}
    orig = System._fwd_prop

    def counting(self, *a, **k):
        count["n"] += 1
        return orig(self, *a, **k)

    System._fwd_prop = counting
    buf = io.StringIO()
    try:
        with contextlib.redirect_stdout(buf):
            try:
                df = B.solve(sys, quiet=False, **kw)
                out = ("table", df)
            except RuntimeError as e:
                out = ("RuntimeError", e)
            except ValueError as e:
                out = ("ValueError", e)
            except Exception as e:  # noqa
                out = ("other", e)
    finally:
        System._fwd_prop = orig
    ns = [int(x) for x in re.findall(r"Tolerances met after (\d+) iterations", buf.getvalue())]
    return out[0], out[1], count["n"], ns


def physical(spec, tab, phase, vtol):
    for n in spec["nodes"]:
        k = n["kind"]
        if k not in S.PASSIVE:
            continue
        r = tab.by[(phase, n["name"])]
        vin, vout = r["Vin (V)"], r["Vout (V)"]
        slack = 3 * (1e-8 + vtol * abs(vin))
        if k == "Rectifier":
            if vout < 0:
                raise Fail("physical.negative.Rectifier",
                           "{!r}: rectifier output {!r} < 0".format(n["name"], vout))
        elif vout * vin < 0:
            raise Fail("physical.inverted." + k,
                       "{!r} ({}): Vin {!r} but Vout {!r}".format(n["name"], k, vin, vout))
        if abs(vout) > abs(vin) + slack:
            raise Fail("physical.amplified." + k,
                       "{!r} ({}): |Vout| {!r} > |Vin| {!r}".format(
                           n["name"], k, abs(vout), abs(vin)))


def body_outcome(case, stats):
    spec = case["spec"]
    vtol, itol, maxiter = case["vtol"], case["itol"], case["maxiter"]
    classify(spec, stats)
    for k, v in spec.get("_gen", {}).get("excluded", {}).items():
        stats.excluded[k] += v
    sys = B.build(spec)
    outcome, payload, sweeps, ns = run_solve(sys, vtol=vtol, itol=itol, maxiter=maxiter)
    stats.cls("outcome:" + outcome)
    nph = max(1, len(spec["phases"]))
    if outcome == "other":
        raise Fail("outcome.exception." + type(payload).__name__,
                   "solve() raised {}: {}".format(type(payload).__name__, payload))
    if sweeps > nph * (maxiter + 1):
        raise Fail("termination.sweeps", "{} sweeps with maxiter={} ({} phase(s))".format(
            sweeps, maxiter, nph))
    if outcome == "table":
        if any(n_ > maxiter for n_ in ns):
            raise Fail("termination.returned_after_maxiter",
                       "returned with 'Tolerances met after {}' but maxiter={}".format(
                           ns, maxiter))
        if len(ns) != nph:
            raise Fail("termination.message", "{} convergence messages for {} phase(s)".format(
                len(ns), nph))
        tab = Table(payload)
        RC.check_finite(tab)
        for ph in (list(spec["phases"]) or [""]):
            RC.check_rows(spec, tab, ph, vtol, itol)
            physical(spec, tab, ph, vtol)
        d = max(S.depth_map(spec).values())
        if max(ns) >= 4 and d >= 3:
            stats.cls("nontrivial:returned")
            stats.nontriv(jhash([spec["nodes"], vtol, itol, maxiter]),
                          sample={"vtol": vtol, "itol": itol, "maxiter": maxiter,
                                  "outcome": "table after {} sweeps".format(ns),
                                  **S.summarize(spec)})
    else:
        msg = str(payload)
        if outcome == "ValueError" and "Unstable" in msg:
            stats.cls("raised:unstable")
        elif outcome == "RuntimeError":
            stats.cls("raised:no_convergence")
        else:
            stats.cls("raised:other_valueerror")
        # overloaded by the reference's verdict?
        ref = None
        try:
            ref = R.ref_solve(spec, phase=(list(spec["phases"]) or [""])[0], maxiter=400)
        except R.Unstable:
            ref = None
        except (ZeroDivisionError, OverflowError):
            ref = None
        if ref is None:
            stats.cls("nontrivial:raised_overloaded")
            stats.nontriv(jhash([spec["nodes"], vtol, itol, maxiter]),
                          sample={"vtol": vtol, "itol": itol, "maxiter": maxiter,
                                  "outcome": outcome + ": " + msg[:80],
                                  **S.summarize(spec)})


def modest(spec, ref, limit=0.10):
    for n in spec["nodes"]:
        if n["kind"] in S.PASSIVE:
            vin, vout, _ii, _io = ref[n["name"]]
            if n["kind"] in ("PSwitch", "PMux") and vout == 0.0:
                continue
            if vin != 0.0 and abs(abs(vin) - abs(vout)) > limit * abs(vin):
                return False
    return True


def liveness_by_sweep(spec):
    """Which components show a non-zero output in sweep t of the solver's start-up (t = 0 is the
    start vector: sources, converters and regulators at their nominal output, everything else
    at 0 V; afterwards a component is live iff its supplier was live one sweep earlier)."""
    nodes = spec["nodes"]
    live = [{n["name"]: n["kind"] in ("Source", "Converter", "LinReg") and not (
        n["kind"] == "Source" and n["params"]["vo"] == 0.0) for n in nodes}]
    for _t in range(len(nodes) + 2):
        prev, cur = live[-1], {}
        for n in nodes:
            if n["kind"] == "Source":
                cur[n["name"]] = n["params"]["vo"] != 0.0
            elif n["kind"] in S.LOADS:
                cur[n["name"]] = False
            elif n["kind"] == "PMux":
                cur[n["name"]] = any(prev[p] for p in n["parents"])
            else:
                cur[n["name"]] = prev[n["parents"][0]]
        live.append(cur)
    return live


def mux_startup_transient(spec):
    """Trigger of known finding F17: in some sweep of the start-up a higher-priority PMux input
    is still (or again) dead while a lower-priority one is live, so the mux feeds its loads
    from the wrong input for a few sweeps."""
    live = liveness_by_sweep(spec)
    final = live[-1]
    for n in spec["nodes"]:
        if n["kind"] == "PMux" and len(n["parents"]) > 1:
            ps = n["parents"]
            for lv in live[:-1]:
                for i in range(len(ps)):
                    if final[ps[i]] and not lv[ps[i]] and any(lv[ps[j]] for j in range(i + 1,
                                                                                      len(ps))):
                        return True
    return False


def tiny_current_matters(spec, ref):
    for n in spec["nodes"]:
        if n["kind"] in S.PASSIVE:
            vin, vout, _ii, io = ref[n["name"]]
            if 0.0 < abs(io) < 1e-3 and abs(abs(vin) - abs(vout)) > 1e-4 * abs(vin):
                return True
    return False


def body_finds(spec, stats, avoid=()):
    if "F17" in avoid and mux_startup_transient(spec):
        stats.excluded["F17_mux_startup_transient"] += 1
        return
    classify(spec, stats)
    for k, v in spec.get("_gen", {}).get("excluded", {}).items():
        stats.excluded[k] += v
    try:
        ref = R.ref_solve(spec)
    except R.Unstable:
        ref = None
    if ref is None or not modest(spec, ref):
        stats.cls("reference:no_modest_state")
        return
    if "F18" in avoid and tiny_current_matters(spec, ref):
        # known finding F18 (absolute tolerance 1e-8 A of the convergence test): a series
        # element whose whole current is below 1 mA but whose drop is significant (only
        # possible with resistances of kilo- to mega-ohms) is solved with a visible error
        stats.excluded["F18_series_drop_from_sub_mA_current"] += 1
        return
    stats.cls("reference:modest_state")
    sys = B.build(spec)
    outcome, payload, sweeps, ns = run_solve(sys)
    if outcome != "table":
        raise Fail("finds.raised." + outcome,
                   "a steady state with all series drops <= 10 % exists (reference solver) "
                   "but solve() raised {}: {}".format(outcome, payload))
    tab = Table(payload)
    RC.check_rows(spec, tab, "", 1e-6, 1e-6, pre="finds.")
    two_d = any(isinstance(v, dict) and len(v["vi"]) > 1
                for n in spec["nodes"] for v in n["params"].values())
    if two_d:
        # inside a 2-D table cell the documented value is not unique (two triangulations):
        # the steady state itself is not unique either, so only "returns a converged
        # steady state" is required here
        stats.cls("finds:2d_table_rowcheck_only")
    for n in ([] if two_d else spec["nodes"]):
        r = tab.by[("", n["name"])]
        vin, vout, iin, iout = ref[n["name"]]
        for c, want in (("Vin (V)", vin), ("Vout (V)", vout), ("Iin (A)", iin),
                        ("Iout (A)", iout)):
            if abs(r[c] - want) > 1e-4 * abs(want) + 1e-7:
                raise Fail("finds.differs." + n["kind"],
                           "{!r}: {} = {!r}, reference steady state {!r}".format(
                               n["name"], c, r[c], want))
    if max(ns) >= 4 and max(S.depth_map(spec).values()) >= 3:
        stats.nontriv(jhash(spec["nodes"]), sample={"sweeps": ns, **S.summarize(spec)})


def _series_overload_cases():
    """Every passive series kind x load kind x drop fraction around 100 % x polarity
    (exhaustive axis): Source(V) - X - load, X sized to drop f*V at the load's current."""
    out = []
    V, I = 5.0, 0.5
    elements = {
        "source_rs": None,
        "RLoss": lambda f: {"rs": f * V / I},
        "VLoss": lambda f: {"vdrop": f * V},
        "PSwitch": lambda f: {"rs": f * V / I},
        "PMux": lambda f: {"rs": f * V / I},
        "PMux_list": lambda f: {"rs": [f * V / I]},
        "Rectifier_diode": lambda f: {"vdrop": f * V / 2},
        "Rectifier_mosfet": lambda f: {"rs": f * V / I / 2},
    }
    loads = {
        "ILoad": ("ILoad", {"ii": I}),
        "PLoad": ("PLoad", {"pwr": 0.2 * V * I}),
        "LinReg+ILoad": None,
    }
    for el, mk in elements.items():
        for ld in loads:
            for f in (0.5, 0.9, 0.999, 1.0, 1.001, 1.2, 2.0, 3.5):
                for sign in (1.0, -1.0):
                    if el == "source_rs" and sign < 0:
                        continue  # F1
                    nodes = []
                    if el == "source_rs":
                        nodes.append(("S", "Source", [], {"vo": sign * V, "rs": f * V / I}))
                        top = "S"
                    else:
                        nodes.append(("S", "Source", [], {"vo": sign * V}))
                        kind = el.split("_")[0]
                        nodes.append(("X", kind, ["S"], mk(f)))
                        top = "X"
                    if ld == "LinReg+ILoad":
                        nodes.append(("Reg", "LinReg", [top], {"vo": 1.0}))
                        nodes.append(("L", "ILoad", ["Reg"], {"ii": I}))
                    else:
                        k, p = loads[ld]
                        nodes.append(("L", k, [top], dict(p)))
                    out.append({"spec": _spec2(nodes), "vtol": 1e-6, "itol": 1e-6,
                                "maxiter": 300, "_tag": [el, ld, f, sign]})
                    if ld == "ILoad" and f in (1.2, 2.0):
                        # the same overload at every small maxiter (the result must never be
                        # returned, whichever sweep happens to be the last one allowed)
                        for mi in range(1, 9):
                            out.append({"spec": _spec2(nodes), "vtol": 1e-6, "itol": 1e-6,
                                        "maxiter": mi, "_tag": [el, ld, f, sign, mi]})
    # a mux running from its second input (first input dead), overloaded by a constant current
    for f in (0.5, 0.999, 1.0, 1.2, 2.0):
        for sign in (1.0, -1.0):
            for dead in ("zero_volt", "dropout"):
                for rs in ("scalar", "list"):
                    r = f * V / I
                    first = [("S0", "Source", [], {"vo": 0.0 if dead == "zero_volt" else sign * V})]
                    inp0 = "S0"
                    if dead == "dropout":
                        first.append(("Reg0", "LinReg", ["S0"], {"vo": 2 * V, "vdrop": 1.5 * V}))
                        inp0 = "Reg0"
                    nodes = first + [
                        ("S1", "Source", [], {"vo": sign * V}),
                        ("X", "PMux", [inp0, "S1"], {"rs": r if rs == "scalar" else [0.0, r]}),
                        ("L", "ILoad", ["X"], {"ii": I})]
                    out.append({"spec": _spec2(nodes), "vtol": 1e-6, "itol": 1e-6,
                                "maxiter": 300, "_tag": ["mux2", dead, rs, f, sign]})
    return out


def _case(o, maxiters):
    return st.fixed_dictionaries({
        "spec": G.systems(o),
        "vtol": st.sampled_from(TOLS),
        "itol": st.sampled_from(TOLS),
        "maxiter": st.sampled_from(maxiters),
    })


def _reduce(case):
    for c in S.reductions(case["spec"]):
        yield {**case, "spec": c}


def streams(tier, avoid):
    big = tier == "thorough"
    mn = 14 if big else 9
    o_over = G.Opts(max_nodes=mn, f_max=3.0, avoid=avoid, thermal=False)
    o_mod = G.Opts(max_nodes=mn, f_max=0.15, avoid=avoid)
    o_ph = G.Opts(max_nodes=mn, f_max=5.0, phases=True, avoid=avoid)
    o_find = G.Opts(max_nodes=mn, f_max=0.10, avoid=avoid)
    return [
        Stream("overload", body_outcome,
               strategy=_case(o_over, [1, 2, 5, 20, 100, 300, 300]),
               n={"quick": 500, "thorough": 3500}, reduce=_reduce),
        Stream("overload_phases", body_outcome,
               strategy=_case(o_ph, [3, 20, 100, 300]),
               n={"quick": 150, "thorough": 1200}, reduce=_reduce),
        Stream("modest", body_outcome,
               strategy=_case(o_mod, [2, 5, 20, 50, 300, 10000, 10000]),
               n={"quick": 400, "thorough": 3000}, reduce=_reduce),
        Stream("series_overload", body_outcome, cases=_series_overload_cases()),
        Stream("finds", lambda c, st_: body_finds(c, st_, avoid), strategy=G.systems(o_find),
               n={"quick": 400, "thorough": 3000}, reduce=S.reductions),
    ]


def _spec2(nodes):
    out = []
    for name, kind, parents, params in nodes:
        out.append({"name": name, "kind": kind, "params": params, "limits": None,
                    "parents": parents, "pref": ["name"] * len(parents), "group": "",
                    "rail": "", "pconf": None})
    return {"name": "probe", "phases": {}, "nodes": out}


def _probe_f1():
    from vlib.runner import Stats
    spec = _spec2([("Vneg", "Source", [], {"vo": -12.0, "rs": 1.0}),
                   ("Load", "ILoad", ["Vneg"], {"ii": 1.0})])
    try:
        body_outcome({"spec": spec, "vtol": 1e-6, "itol": 1e-6, "maxiter": 100}, Stats())
    except Fail as f:
        if f.sig in ("law.vout.Source", "physical.amplified.Source"):
            return "Source(vo=-12, rs=1) at 1 A returns Vout -13 V: a source resistance amplifying its input"
        raise
    return None


def _probe_f8():
    import sysloss.components as C
    from vlib.runner import Stats
    try:
        C.Rectifier("B", rs=[0.1, 0.2])
    except ValueError:
        return None
    spec = _spec2([("V", "Source", [], {"vo": 12.0}),
                   ("B", "Rectifier", ["V"], {"rs": [0.1, 0.2]}),
                   ("L", "ILoad", ["B"], {"ii": 1.0})])
    try:
        body_outcome({"spec": spec, "vtol": 1e-6, "itol": 1e-6, "maxiter": 100}, Stats())
    except Fail as f:
        if f.sig.startswith("outcome.exception."):
            return "Rectifier(rs=[0.1, 0.2]) is accepted by the constructor and solve() dies with " + f.sig.split(".")[-1]
        raise
    return None


def _probe_f17():
    from vlib.runner import Stats
    spec = _spec2([("V24", "Source", [], {"vo": 24.0}),
                   ("V1", "Source", [], {"vo": 1.0}),
                   ("Trace", "RLoss", ["V24"], {"rs": 1.5}),
                   ("Mux", "PMux", ["Trace", "V1"], {}),
                   ("MCU", "PLoad", ["Mux"], {"pwr": 22.5})])
    try:
        body_finds(spec, Stats())
    except Fail as f:
        if f.sig == "finds.raised.ValueError":
            return ("24 V - RLoss 1.5 Ohm - PMux[Trace, 1 V source] - PLoad 22.5 W has the steady "
                    "state 22.5 V / 1 A (6 % drop) but solve() raises 'Unstable system: RLoss'")
        raise
    return None


def _probe_f18():
    from vlib.runner import Stats
    spec = _spec2([("V", "Source", [], {"vo": 10.0, "rs": 488281.25}),
                   ("T", "RLoss", ["V"], {"rs": 0.0}),
                   ("Buck", "Converter", ["T"], {"vo": 1.2, "eff": 1.0}),
                   ("MCU", "PLoad", ["Buck"], {"pwr": 1.2e-05})])
    try:
        body_finds(spec, Stats())
    except Fail as f:
        if f.sig.startswith("finds.differs."):
            return ("10 V source with 488 kOhm feeding 1.28 uA: steady state 9.375 V, solve() "
                    "returns 9.3776 V (currents are only resolved to 1e-8 A absolute)")
        raise
    return None


PROBES = {"F1": _probe_f1, "F8": _probe_f8, "F17": _probe_f17, "F18": _probe_f18}
