"""C19 - diagrams show exactly the system; heat colours and labels follow the losses."""

import copy
import os
import re
import tempfile
import warnings

from hypothesis import strategies as st

from vlib import build as B
from vlib import gen as G
from vlib import spec as S
from vlib.runner import Fail, Skip, Stream, jhash
from vlib.table import Table

ID = "C19"
LEVEL = "exploration"
RULE = (
    "Generated systems of any shape with groups (none / some / all components, group names "
    "with spaces), 1-3 sources, PMux, phases; configuration dictionaries built from "
    "get_conf() plus generated overrides carrying marker values at the three levels (default "
    "/ component class / component name) for several attributes, cluster overrides, rankdir "
    "in {TB,BT,LR,RL}, group in {True,False}. make_diag and make_hdiag are asked for '*.raw' "
    "output (the DOT source handed to Graphviz), which is parsed back with pydot. Oracle: "
    "node set = component names (+ the 'Scale' legend in the heat diagram); edge set = the "
    "spec's parent->child links with direction; a node sits in cluster_<group> iff grouping "
    "is on and its group is non-empty; every node attribute = name-level override, else "
    "class-level, else default; cluster attributes likewise; the caller's configuration is "
    "unchanged. Heat diagram: label = name + loss with SI prefix within 0.5 % of the "
    "duration-weighted loss recomputed from solve(); fill colour decodes to mix = "
    "loss/maxloss within one 8-bit step (largest loss #ff1210, zero loss #2120ff); legend "
    "shows the maximum loss. Stream 'after_history' runs the same oracle on systems reached through generated edit histories (renames, deletions, re-adds, mux edits). A further stream checks the SI formatter on 1e-15..1e9 directly. "
    "Non-trivial: >= 2 groups, an ungrouped node and overrides at >= 2 levels for the same "
    "attribute; heat: >= 3 distinct losses incl. a zero; distinct by (spec hash, config)."
)
ASSUMPTIONS = [
    "the DOT source is checked, not rendered pixels (a sample is rendered through dot to "
    "JSON in the thorough tier)",
    "I8: component and group names contain no ':' and are not Graphviz keywords",
]

COLORS = ["coral", "darkturquoise", "deeppink", "aquamarine", "gold", "gray80", "khaki"]
SHAPES = ["box", "ellipse", "oval", "hexagon", "octagon", "note", "folder"]
ATTRS = {"fillcolor": COLORS, "shape": SHAPES, "penwidth": ["0.5", "1.0", "2.5", "3.0"],
         "fontcolor": ["black", "navy", "firebrick"], "fontname": ["arial", "courier", "times"],
         "color": ["black", "red", "blue"]}
SI = {"p": 1e-12, "n": 1e-9, "u": 1e-6, "m": 1e-3, "": 1.0, "k": 1e3, "M": 1e6}


def unq(s_):
    if s_ is None:
        return None
    s_ = str(s_)
    if len(s_) >= 2 and s_[0] == '"' and s_[-1] == '"':
        s_ = s_[1:-1]
    return s_


@st.composite
def configs(draw, spec):
    """Overrides (plain data) to be merged into get_conf()."""
    names = [n["name"] for n in spec["nodes"]]
    kinds = sorted({n["kind"] for n in spec["nodes"]})
    groups = sorted({n["group"] for n in spec["nodes"] if n["group"]})

    def some_attrs(maxn=3):
        keys = draw(st.lists(st.sampled_from(sorted(ATTRS)), min_size=1, max_size=maxn,
                             unique=True))
        return {k: draw(st.sampled_from(ATTRS[k])) for k in keys}

    ov = {"node": {}, "cluster": {}, "graph": {}, "edge": {}}
    if draw(st.integers(0, 3)) > 0:
        ov["node"]["default"] = some_attrs()
    for k in kinds:
        if draw(st.integers(0, 2)) == 0:
            ov["node"][k] = some_attrs()
    for nm in names:
        if draw(st.integers(0, 3)) == 0:
            ov["node"][nm] = some_attrs()
    if len(ov["node"]) > 1 and draw(st.integers(0, 1)) == 0:
        # the precedence default -> kind -> name is a rule about the keys, not about the
        # order in which the caller happened to add them to the dictionary
        order = draw(st.permutations(sorted(ov["node"])))
        ov["node"] = {k: ov["node"][k] for k in order}
    if draw(st.integers(0, 2)) == 0:
        ov["cluster"]["default"] = {"fillcolor": draw(st.sampled_from(COLORS))}
    for g in groups:
        if draw(st.integers(0, 2)) == 0:
            ov["cluster"][g] = {draw(st.sampled_from(["fillcolor", "penwidth", "fontcolor"])):
                                draw(st.sampled_from(["gold", "2.0", "navy"]))}
    ov["graph"]["rankdir"] = draw(st.sampled_from(["TB", "BT", "LR", "RL"]))
    if draw(st.integers(0, 3)) == 0:
        ov["edge"]["color"] = draw(st.sampled_from(["red", "gray40"]))
    return {"overrides": ov, "use_default": draw(st.integers(0, 5)) == 0,
            "group": draw(st.integers(0, 3)) > 0}


def nano_power(spec, k=1e-8):
    """The same system with every load and every quiescent / ground / sleep current scaled by
    k: all losses end up in the nano-watt range and below."""
    sp = S.clone(spec)
    for n in sp["nodes"]:
        p = n["params"]
        for key in ("pwr", "pwrs", "ii", "iis", "iq"):
            if key in p and not isinstance(p[key], dict):
                p[key] = p[key] * k
        if "ig" in p:
            if isinstance(p["ig"], dict):
                p["ig"] = dict(p["ig"], ig=[[v * k for v in row] for row in p["ig"]["ig"]],
                               io=[x * k for x in p["ig"]["io"]])
            else:
                p["ig"] = p["ig"] * k
        if n["kind"] == "RLoad":
            p["rs"] = p["rs"] / k
        pc = n.get("pconf")
        if isinstance(pc, dict):
            n["pconf"] = {ph: (v / k if n["kind"] == "RLoad" else v * k) for ph, v in pc.items()}
    return sp


@st.composite
def cases(draw, opts):
    spec = draw(G.systems(opts))
    if draw(st.integers(0, 7)) == 3:
        spec = nano_power(spec)
        spec["_nano"] = True
    groups = sorted({n["group"] for n in spec["nodes"] if n["group"]})
    if groups and draw(st.integers(0, 3)) == 1:
        # any non-empty string names a group: blanks only, or text with surrounding blanks
        g = groups[draw(st.integers(0, len(groups) - 1))]
        new = draw(st.sampled_from([" ", "  ", " ", " " + g, g + " "]))
        if new not in groups:
            for n in spec["nodes"]:
                if n["group"] == g:
                    n["group"] = new
            spec["_odd_group"] = True
    return {"spec": spec, "conf": draw(configs(spec))}


def build_config(conf):
    from sysloss.diagram import get_conf

    if conf["use_default"]:
        return {}
    c = get_conf()
    for sec, d in conf["overrides"].items():
        for k, v in d.items():
            if isinstance(v, dict):
                c[sec].setdefault(k, {})
                c[sec][k].update(v)
            else:
                c[sec][k] = v
    return c


def parse_dot(text):
    import pydot

    gs = pydot.graph_from_dot_data(text)
    if not gs:
        raise Fail("dot.parse", "the DOT output cannot be parsed:\n" + text[:600])
    g = gs[0]
    nodes = {}  # name -> (cluster or None, attrs)
    clusters = {}

    def take(gr, cluster):
        for nd in gr.get_nodes():
            nm = unq(nd.get_name())
            if nm in ("node", "edge", "graph"):
                continue
            if nm in nodes:
                raise Fail("dot.node_twice", "node {!r} appears twice".format(nm))
            nodes[nm] = (cluster, {k: unq(v) for k, v in nd.get_attributes().items()})

    take(g, None)
    for sg in g.get_subgraphs():
        cn = unq(sg.get_name())
        clusters[cn] = {k: unq(v) for k, v in sg.get_attributes().items()}
        take(sg, cn)
        if sg.get_subgraphs():
            raise Fail("dot.nested", "nested subgraphs")
    edges = [(unq(e.get_source()), unq(e.get_destination()),
              {k: unq(v) for k, v in e.get_attributes().items()}) for e in g.get_edges()]
    for sg in g.get_subgraphs():
        if sg.get_edges():
            raise Fail("dot.cluster_edges", "edges inside a cluster")
    gattrs = {k: unq(v) for k, v in g.get_attributes().items()}
    return g, nodes, clusters, edges, gattrs


def expected_node_attrs(cfg_eff, node):
    a = dict(cfg_eff["node"]["default"])
    a.update(cfg_eff["node"].get(node["kind"], {}))
    a.update(cfg_eff["node"].get(node["name"], {}))
    return a


def parse_si(txt):
    m = re.fullmatch(r"([-+0-9.eE]+?)([pnumkM]?)W", txt)
    if not m:
        raise Fail("heat.label_format", "cannot parse loss text {!r}".format(txt))
    return float(m.group(1)) * SI[m.group(2)]


def hex_rgb(h):
    h = h.lstrip("#")
    return tuple(int(h[i:i + 2], 16) for i in (0, 2, 4))


COLD, WARM = (0x21, 0x20, 0xff), (0xff, 0x12, 0x10)


def check_diagram(spec, conf, heat, stats, sys=None):
    from sysloss.diagram import get_conf, make_diag, make_hdiag

    sys = sys or B.build(spec)
    cfg = build_config(conf)
    pristine = copy.deepcopy(cfg)
    grp = conf["group"]
    with tempfile.TemporaryDirectory(prefix="vc19_") as d:
        f = os.path.join(d, "out.raw")
        with warnings.catch_warnings():
            warnings.simplefilter("ignore")
            try:
                (make_hdiag if heat else make_diag)(sys, fname=f, group=grp, config=cfg)
            except (ValueError, RuntimeError) as e:
                if heat:
                    raise Skip("not_solved")
                raise Fail("diagram.exception.ValueError", "make_diag raised {}".format(e))
            except Exception as e:
                raise Fail("diagram.exception." + type(e).__name__,
                           "{} raised {}: {}".format("make_hdiag" if heat else "make_diag",
                                                     type(e).__name__, e))
        text = open(f).read()
    if cfg != pristine:
        raise Fail("config_mutated", "the configuration passed in was changed")
    cfg_eff = cfg if cfg != {} else get_conf()
    g, nodes, clusters, edges, gattrs = parse_dot(text)
    nm = S.node_map(spec)
    want_nodes = set(nm) | ({"Scale"} if heat else set())
    if set(nodes) != want_nodes:
        raise Fail("nodes", "diagram nodes {} vs components {}".format(
            sorted(set(nodes) ^ want_nodes), sorted(want_nodes)))
    want_edges = sorted((p, n["name"]) for n in spec["nodes"] for p in n["parents"])
    got_edges = sorted((a, b) for a, b, _ in edges)
    if got_edges != want_edges:
        raise Fail("edges", "diagram edges differ: only drawn {}, missing {}".format(
            sorted(set(got_edges) - set(want_edges)), sorted(set(want_edges) - set(got_edges))))
    for a, b, at in edges:
        for k, v in cfg_eff["edge"].items():
            if at.get(k) != str(v):
                raise Fail("edge.attr", "edge {}->{} {} = {!r}, configured {!r}".format(
                    a, b, k, at.get(k), v))
    for k, v in cfg_eff["graph"].items():
        if gattrs.get(k) != str(v):
            raise Fail("graph.attr", "graph attribute {} = {!r}, configured {!r}".format(
                k, gattrs.get(k), v))
    groups = sorted({n["group"] for n in spec["nodes"] if n["group"]})
    want_clusters = {"cluster_" + gname for gname in groups} if grp else set()
    if set(clusters) != want_clusters:
        raise Fail("clusters", "clusters {} vs expected {}".format(sorted(clusters),
                                                                   sorted(want_clusters)))
    for gname in (groups if grp else []):
        exp = dict(cfg_eff["cluster"]["default"])
        exp.update(cfg_eff["cluster"].get(gname, {}))
        exp["label"] = gname
        got = clusters["cluster_" + gname]
        for k, v in exp.items():
            if got.get(k) != str(v):
                raise Fail("cluster.attr", "cluster {!r} {} = {!r}, expected {!r}".format(
                    gname, k, got.get(k), v))
    # losses for the heat diagram
    if heat:
        tab = Table(B.solve(sys))
        phases = list(spec["phases"])
        loss = {}
        for n in spec["nodes"]:
            if phases:
                w = sum(spec["phases"].values())
                loss[n["name"]] = sum(spec["phases"][p] * tab.by[(p, n["name"])]["Loss (W)"]
                                      for p in phases) / w
            else:
                loss[n["name"]] = tab.by[("", n["name"])]["Loss (W)"]
        mx = max(loss.values())
    for n in spec["nodes"]:
        cl, at = nodes[n["name"]]
        want_cl = ("cluster_" + n["group"]) if (grp and n["group"]) else None
        if cl != want_cl:
            raise Fail("cluster.membership", "{!r} (group {!r}, grouping {}) sits in {!r}, "
                       "expected {!r}".format(n["name"], n["group"], grp, cl, want_cl))
        exp = expected_node_attrs(cfg_eff, n)
        if heat:
            exp["fontcolor"] = "silver"
            exp.pop("fillcolor", None)
        for k, v in exp.items():
            if at.get(k) != str(v):
                raise Fail("node.attr." + k,
                           "{!r} ({}): attribute {} = {!r}, expected {!r} (default {!r}, class "
                           "{!r}, name {!r})".format(
                               n["name"], n["kind"], k, at.get(k), v,
                               cfg_eff["node"]["default"].get(k),
                               cfg_eff["node"].get(n["kind"], {}).get(k),
                               cfg_eff["node"].get(n["name"], {}).get(k)))
        extra = set(at) - set(exp) - ({"label", "fillcolor"} if heat else set())
        if extra:
            raise Fail("node.attr.extra", "{!r}: unexpected attributes {}".format(
                n["name"], sorted(extra)))
        if heat:
            lab = at.get("label", "")
            parts = re.split(r"\\n|\n", lab)
            if len(parts) != 2 or parts[0] != n["name"]:
                raise Fail("heat.label_format", "{!r}: label {!r}".format(n["name"], lab))
            val = parse_si(parts[1])
            lo = loss[n["name"]]
            if abs(val - lo) > 0.005 * abs(lo) + 1e-300:
                raise Fail("heat.label_value",
                           "{!r}: label shows {} = {!r} W, duration-weighted loss is {!r} "
                           "W".format(n["name"], parts[1], val, lo))
            rgb = hex_rgb(at["fillcolor"])
            mix = lo / mx if mx > 0 else 0.0
            for ch in (0, 2):
                want = (1 - mix) * COLD[ch] + mix * WARM[ch]
                if abs(rgb[ch] - want) > 1.01:
                    raise Fail("heat.colour",
                               "{!r}: fill {} but loss/maxloss = {:.4f} -> channel {} "
                               "should be {:.1f}".format(n["name"], at["fillcolor"], mix, ch,
                                                         want))
            if mx > 0 and lo == mx and at["fillcolor"].lower() != "#ff1210":
                raise Fail("heat.warmest", "largest loss {!r} has colour {}".format(
                    n["name"], at["fillcolor"]))
            if lo == 0.0 and at["fillcolor"].lower() != "#2120ff":
                raise Fail("heat.coldest", "zero loss {!r} has colour {}".format(
                    n["name"], at["fillcolor"]))
    if heat:
        lab = nodes["Scale"][1].get("label", "")
        rd = cfg_eff["graph"]["rankdir"]
        inner = lab
        if rd in ("TB", "BT"):
            if not (lab.startswith("{") and lab.endswith("}")):
                raise Fail("heat.legend", "legend label {!r} for rankdir {}".format(lab, rd))
            inner = lab[1:-1]
        cells = inner.split("|")
        top = parse_si(cells[0].strip())
        if abs(top - mx) > 0.005 * abs(mx) or cells[-1].strip() != "0W":
            raise Fail("heat.legend", "legend {!r}, maximum loss {!r}".format(lab, mx))
        return loss
    return None


def body(case, stats):
    spec, conf = case["spec"], case["conf"]
    check_diagram(spec, conf, False, stats)
    stats.cls("make_diag")
    try:
        loss = check_diagram(spec, conf, True, stats)
        stats.cls("make_hdiag")
    except Skip:
        loss = None
        stats.cls("hdiag_not_solved")
    ov = conf["overrides"]["node"]
    groups = {n["group"] for n in spec["nodes"] if n["group"]}
    ungrouped = any(not n["group"] for n in spec["nodes"])
    levels = 0
    for attr in ATTRS:
        lv = 0
        if attr in ov.get("default", {}):
            lv += 1
        if any(attr in ov.get(k, {}) for k in S.KINDS if any(n["kind"] == k for n in spec["nodes"])):
            lv += 1
        if any(attr in ov.get(n["name"], {}) for n in spec["nodes"]):
            lv += 1
        levels = max(levels, lv)
    if spec.get("_odd_group"):
        stats.cls("group_name_with_blanks")
    if spec.get("_nano"):
        stats.cls("nano_power_system")
    stats.cls("groups={}".format(min(len(groups), 3)))
    stats.cls("override_levels={}".format(levels))
    stats.cls("grouping_on" if conf["group"] else "grouping_off")
    heat_ok = loss is not None and len(set(loss.values())) >= 3 and 0.0 in loss.values()
    if (len(groups) >= 2 and ungrouped and levels >= 2 and not conf["use_default"]) or heat_ok:
        stats.nontriv(jhash([spec["nodes"], spec["phases"], conf]),
                      sample={"conf": conf, **S.summarize(spec)})


@st.composite
def history_cases(draw):
    from vlib.props.c12 import histories
    return {"ops": draw(histories()), "seedconf": draw(st.integers(0, 10 ** 6)),
            "group": draw(st.booleans()),
            "rankdir": draw(st.sampled_from(["TB", "BT", "LR", "RL"]))}


def body_history(case, stats):
    """The diagram of a system reached through an edit history shows exactly that system."""
    from vlib import machine as M
    from vlib.runner import Stats

    d = M.replay_ops(case["ops"], set(), Stats())
    if not d.in_sync():
        stats.cls("history_out_of_model")
        return
    spec = {"name": "Sys", "phases": d.model["phases"], "nodes": M.topo_nodes(d.model)}
    names = [n["name"] for n in spec["nodes"]]
    pick = names[case["seedconf"] % len(names)]
    conf = {"overrides": {"node": {pick: {"shape": "hexagon"},
                                   spec["nodes"][0]["kind"]: {"fillcolor": "gold"}},
                          "cluster": {}, "graph": {"rankdir": case["rankdir"]}, "edge": {}},
            "use_default": False, "group": case["group"]}
    check_diagram(spec, conf, False, stats, sys=d.sys)
    try:
        check_diagram(spec, conf, True, stats, sys=d.sys)
    except Skip:
        stats.cls("hdiag_not_solved")
    stats.cls("after_history")
    if len(names) >= 4 and any(t in d.flags for t in (
            "renamed", "renamed_mux_input", "deleted_keep_children", "deleted_subtree",
            "mux_input_deleted_children_kept")):
        stats.nontriv(jhash(case["ops"]), sample=[M.op_text(o) for o in case["ops"]][:10])


def body_nice(x, stats):
    from sysloss.diagram import _nice_float

    txt = _nice_float(x)
    if txt is None:
        raise Fail("nice_float.none", "_nice_float({!r}) returned None".format(x))
    val = parse_si(txt + "W")
    if abs(val - x) > 0.005 * abs(x):
        raise Fail("nice_float.value", "_nice_float({!r}) = {!r} = {!r}".format(x, txt, val))
    mant = re.fullmatch(r"([-+0-9.eE]+?)([pnumkM]?)", txt).group(1)
    stats.cls("prefix:" + (re.sub(r"[-+0-9.eE]", "", txt) or "none"))
    stats.nontriv(repr(x))


def _reduce(case):
    for c in S.reductions(case["spec"]):
        yield {**case, "spec": c}


def streams(tier, avoid):
    big = tier == "thorough"
    mn = 12 if big else 8
    common = dict(max_nodes=mn, min_nodes=3, groups=True, avoid=avoid, zero_source=True,
                  f_max=0.08)
    return [
        Stream("static", body, strategy=cases(G.Opts(**common)),
               n={"quick": 250, "thorough": 1200}, reduce=_reduce),
        Stream("phases", body, strategy=cases(G.Opts(phases=True, **common)),
               n={"quick": 150, "thorough": 700}, reduce=_reduce),
        Stream("after_history", body_history, strategy=history_cases(),
               n={"quick": 100, "thorough": 500}),
        Stream("si_format", body_nice, strategy=G.logf(1e-15, 1e9),
               n={"quick": 5000, "thorough": 50000}),
    ]
