"""C09 - warnings appear exactly when an applicable limit is exceeded."""

from hypothesis import strategies as st

from vlib import build as B
from vlib import gen as G
from vlib import refmodel as R
from vlib import spec as S
from vlib.props.c01 import classify, solve_or_skip
from vlib.props.c08 import tokens
from vlib.runner import Fail, Stream, jhash
from vlib.table import Table, _plain, isnum

ID = "C09"
LEVEL = "exploration"
RULE = (
    "Two-pass generation so that boundaries are hit: a generated system (both polarities, "
    "phases with active/inactive components, dead rows, thermal resistances, drawn ambient) "
    "is solved once with default limits; a drawn plan then puts, per component, limits on "
    "any of the 10 keys (applicable to the kind or not) relative to the observed quantity v: "
    "exactly v, v(1+-1e-9), v/2, 2v, optionally with negative sign or min > max; the system "
    "is rebuilt with those limits and solved again. Oracle: tokens(row) = applicable keys "
    "whose reported quantity lies outside [min,max] by magnitude (tp signed), empty when "
    "the phase configuration of a converter/regulator/switch/mux/load omits the phase; "
    "Subsystem 'Yes' iff a component of its (expected) domain has tokens, total 'Yes' iff "
    "any; limits() shows the given pair unless it equals the default. A second, exhaustive "
    "stream enumerates all 11 kinds x 10 keys for applicability. Non-trivial: >= 1 expected "
    "token, >= 1 limit placed exactly on the observed value and >= 1 non-default limit that "
    "must not fire; distinct by (spec hash, plan)."
)
ASSUMPTIONS = [
    "quantities are taken from the reported row (vd=|vi|-|vo|, pi=Power, po=Power-Loss, "
    "pl=Loss, tr=rise, tp=ambient+rise) and compared with the same float operations",
    "solve() is deterministic, so a limit placed exactly on the first pass's value sits "
    "exactly on the second pass's value",
    "phase configurations only on kinds documented to support them (no Rectifier)",
]
EXHAUSTIVE = False

MODES = ["none", "exact", "up", "down", "half", "double", "zero"]
GATED = ("Converter", "LinReg", "PSwitch", "PMux", "PLoad", "ILoad", "RLoad")


def quantities(n, r, ta):
    vi, vo, ii, io = r["Vin (V)"], r["Vout (V)"], r["Iin (A)"], r["Iout (A)"]
    P, L = r["Power (W)"], r["Loss (W)"]
    tr = r.get("Temp. rise (°C)", "")
    if not isnum(tr):
        rt = abs(n["params"].get("rt", 0.0))
        dis = abs(vi) * ii if n["kind"] in S.LOADS else L
        tr = rt * dis
    return {"vi": vi, "vo": vo, "vd": abs(vi) - abs(vo), "ii": ii, "io": io, "pi": P,
            "po": P - L, "pl": L, "tr": tr, "tp": ta + tr}


def expected_tokens(n, q, limits, phase):
    if n["kind"] in GATED and n.get("pconf") and phase not in n["pconf"]:
        return set()
    out = set()
    for k in S.APPLICABLE[n["kind"]]:
        lo, hi = (limits or {}).get(k, S.LIMITS_DEFAULT[k])
        v = q[k]
        if k == "tp":
            if v > hi or v < lo:
                out.add(k)
        elif abs(v) > abs(hi) or abs(v) < abs(lo):
            out.add(k)
    return out


def apply_mode(mode, v, default):
    if mode == "none":
        return default
    if mode == "exact":
        return v
    if mode == "up":
        return v * (1 + 1e-9) if v != 0 else 1e-12
    if mode == "down":
        return v * (1 - 1e-9)
    if mode == "half":
        return v / 2
    if mode == "zero":
        return 0.0  # a bound of exactly 0 is a bound (a peak temperature can lie below it)
    return v * 2


def check_tables(spec, sys, tab, ta, stats, pre=""):
    """Warnings column + roll-up + limits() against the oracle. Returns summary dict."""
    multi = len(S.sources(spec)) >= 2
    phases = list(spec["phases"]) or [""]
    n_tok = 0
    for ph in phases:
        dom = R.domain_map(spec, ph)
        dwarn = {s: False for s in S.sources(spec)}
        for n in spec["nodes"]:
            r = tab.by[(ph, n["name"])]
            q = quantities(n, r, ta)
            want = expected_tokens(n, q, n.get("limits"), ph)
            got = tokens(r["Warnings"])
            if got != want:
                raise Fail(pre + "tokens." + n["kind"],
                           "phase {!r}: {!r} ({}) warns {} but expected {}; quantities {} "
                           "limits {} pconf {}".format(
                               ph, n["name"], n["kind"], sorted(got), sorted(want),
                               {k: q[k] for k in sorted(got ^ want) if k in q},
                               {k: (n.get("limits") or {}).get(k) for k in sorted(got ^ want)},
                               n.get("pconf")))
            if want:
                dwarn[dom[n["name"]]] = True
                n_tok += len(want)
        if multi:
            for s in S.sources(spec):
                sub = tab.special[(ph, "Subsystem " + s)]
                if (sub["Warnings"] == "Yes") != dwarn[s] or sub["Warnings"] not in ("Yes", ""):
                    raise Fail(pre + "rollup.subsystem",
                               "phase {!r}: Subsystem {!r} Warnings {!r}, components of its "
                               "domain {} warnings".format(
                                   ph, s, sub["Warnings"], "have" if dwarn[s] else "have no"))
        tot = tab.special[(ph, "System total")]
        anyw = any(dwarn.values())
        if (tot["Warnings"] == "Yes") != anyw or tot["Warnings"] not in ("Yes", ""):
            raise Fail(pre + "rollup.total", "phase {!r}: System total Warnings {!r} but "
                       "components {} warnings".format(
                           ph, tot["Warnings"], "have" if anyw else "have no"))
    return n_tok


def check_limits_report(spec, sys, pre=""):
    lr = sys.limits()
    units = {"vi": "V", "vo": "V", "vd": "V", "ii": "A", "io": "A", "pi": "W", "po": "W",
             "pl": "W", "tr": "°C", "tp": "°C"}
    rows = {}
    for rec in lr.to_dict("records"):
        rec = _plain(rec)
        rows[rec["Component"]] = rec
    if sorted(rows) != sorted(n["name"] for n in spec["nodes"]):
        raise Fail(pre + "limits.rows", "limits() lists {}".format(sorted(rows)))
    for n in spec["nodes"]:
        for k in S.LIMIT_KEYS:
            col = "{}  ({})".format(k, units[k])
            if col not in rows[n["name"]]:
                col = [c for c in rows[n["name"]] if c.split(" ")[0] == k][0]
            given = (n.get("limits") or {}).get(k)
            want = "" if (given is None or list(given) == S.LIMITS_DEFAULT[k]) else list(given)
            got = rows[n["name"]][col]
            if isinstance(got, tuple):
                got = list(got)
            if got != want:
                raise Fail(pre + "limits.report",
                           "limits(): {!r} key {} shows {!r}, configured {!r}".format(
                               n["name"], k, got, given))


def body(case, stats):
    spec0, ta, plan = case["spec"], case["ta"], case["plan"]
    classify(spec0, stats)
    for k, v in spec0.get("_gen", {}).get("excluded", {}).items():
        stats.excluded[k] += v
    tav = 25.0 if ta is None else ta
    kw = {} if ta is None else {"ta": ta}
    spec = S.clone(spec0)
    for n in spec["nodes"]:
        n["limits"] = None
    df0 = solve_or_skip(B.build(spec), stats, **kw)
    t0 = Table(df0)
    phases = list(spec["phases"]) or [""]
    exact = 0
    quiet_nondefault = 0
    for e in plan:
        n = spec["nodes"][e["node"] % len(spec["nodes"])]
        ph = phases[e["phase"] % len(phases)]
        q = quantities(n, t0.by[(ph, n["name"])], tav)
        k = e["key"]
        v = q[k]
        dlo, dhi = S.LIMITS_DEFAULT[k]
        lo = apply_mode(e["lo"], v, dlo)
        hi = apply_mode(e["hi"], v, dhi)
        if e["neg"] and k != "tp":
            lo, hi = -lo, -hi
        if e["lo"] == "none" and e["hi"] == "none":
            if e["neg"]:
                lo, hi = dlo, dhi  # explicitly the default pair
        if e["int"] and float(hi).is_integer() and float(lo).is_integer():
            lo, hi = int(lo), int(hi)
        n["limits"] = dict(n["limits"] or {})
        n["limits"][k] = [lo, hi]
        if "exact" in (e["lo"], e["hi"]):
            exact += 1
    sys = B.build(spec)
    df = solve_or_skip(sys, stats, **kw)
    tab = Table(df)
    n_tok = check_tables(spec, sys, tab, tav, stats)
    check_limits_report(spec, sys)
    # count limits that are non-default and do not fire anywhere
    for n in spec["nodes"]:
        for k, pair in (n["limits"] or {}).items():
            if list(pair) != S.LIMITS_DEFAULT[k] and k in S.APPLICABLE[n["kind"]]:
                if not any(k in tokens(tab.by[(ph, n["name"])]["Warnings"]) for ph in phases):
                    quiet_nondefault += 1
    stats.cls("solved")
    stats.cls("tokens_expected", n_tok)
    stats.cls("limits_on_exact_value", exact)
    if n_tok >= 1 and exact >= 1 and quiet_nondefault >= 1:
        stats.nontriv(jhash([spec["nodes"], spec["phases"], ta]),
                      sample={"ta": ta, "plan": plan[:4], **S.summarize(spec)})


def _plan():
    entry = st.fixed_dictionaries({
        "node": st.integers(0, 40), "phase": st.integers(0, 3),
        "key": st.sampled_from(S.LIMIT_KEYS),
        "lo": st.sampled_from(MODES), "hi": st.sampled_from(MODES),
        "neg": st.integers(0, 5).map(lambda x: x == 0),
        "int": st.integers(0, 5).map(lambda x: x == 0),
    })
    return st.lists(entry, min_size=1, max_size=14)


def _case(o):
    return st.fixed_dictionaries({
        "spec": G.systems(o),
        "ta": st.one_of(st.none(), st.floats(-55.0, 125.0, allow_nan=False)),
        "plan": _plan(),
    })


def _reduce(case):
    for i in range(len(case["plan"])):
        if len(case["plan"]) > 1:
            yield {**case, "plan": case["plan"][:i] + case["plan"][i + 1:]}
    for c in S.reductions(case["spec"]):
        yield {**case, "spec": c}


# ---- exhaustive applicability table: 11 kinds x 10 keys -------------------------------------
def _probe_spec(kind):
    from vlib.props.c03 import _spec2
    mid = {
        "PLoad": {"pwr": 2.0, "rt": 10.0}, "ILoad": {"ii": 0.5, "rt": 10.0},
        "RLoad": {"rs": 20.0, "rt": 10.0}, "RLoss": {"rs": 1.0, "rt": 10.0},
        "VLoss": {"vdrop": 0.4, "rt": 10.0},
        "Converter": {"vo": 5.0, "eff": 0.8, "rt": 10.0},
        "LinReg": {"vo": 5.0, "ig": 1e-3, "rt": 10.0},
        "PSwitch": {"rs": 0.5, "ig": 1e-3, "rt": 10.0},
        "PMux": {"rs": 0.5, "ig": 1e-3, "rt": 10.0},
        "Rectifier": {"vdrop": 0.3, "rt": 10.0},
    }
    if kind == "Source":
        return _spec2([("X", "Source", [], {"vo": 12.0, "rs": 0.5}),
                       ("L", "ILoad", ["X"], {"ii": 0.5})])
    if kind in S.LOADS:
        return _spec2([("S", "Source", [], {"vo": 12.0}), ("X", kind, ["S"], mid[kind])])
    return _spec2([("S", "Source", [], {"vo": 12.0}), ("X", kind, ["S"], mid[kind]),
                   ("L", "ILoad", ["X"], {"ii": 0.5})])


def body_applicable(case, stats):
    kind, key, which = case["kind"], case["key"], case["which"]
    spec = _probe_spec(kind)
    t0 = Table(B.solve(B.build(spec)))
    x = S.node_map(spec)["X"]
    q = quantities(x, t0.by[("", "X")], 25.0)
    v = q[key]
    dlo, dhi = S.LIMITS_DEFAULT[key]
    if which == "max":
        lim = [dlo, v - abs(v) / 2 - 1e-3]
    else:
        lim = [v + abs(v) / 2 + 1e-3, dhi]
    x["limits"] = {key: lim}
    sys = B.build(spec)
    tab = Table(B.solve(sys))
    check_tables(spec, sys, tab, 25.0, stats, pre="applicable.")
    check_limits_report(spec, sys, pre="applicable.")
    got = tokens(tab.by[("", "X")]["Warnings"])
    fires = (abs(v) > abs(lim[1]) or abs(v) < abs(lim[0])) if key != "tp" else (
        v > lim[1] or v < lim[0])
    want = {key} if (key in S.APPLICABLE[kind] and fires) else set()
    if got != want:
        raise Fail("applicable.{}.{}".format(kind, key),
                   "{} with {} limit {} on quantity {!r}: warns {}, expected {}".format(
                       kind, key, lim, v, sorted(got), sorted(want)))
    stats.cls("applicable" if key in S.APPLICABLE[kind] else "inapplicable")
    if want:
        stats.nontriv(jhash([kind, key, which]), sample={"kind": kind, "key": key,
                                                         "limit": lim, "value": v})


def streams(tier, avoid):
    big = tier == "thorough"
    mn = 12 if big else 8
    o1 = G.Opts(max_nodes=mn, thermal=True, zero_source=True, avoid=avoid)
    o2 = G.Opts(max_nodes=mn, thermal=True, zero_source=True, phases=True, avoid=avoid,
                odd_phase_conf=True, drop_sys_phases=True)
    cases = [{"kind": k, "key": key, "which": w} for k in S.KINDS for key in S.LIMIT_KEYS
             for w in ("max", "min")]
    return [
        Stream("static", body, strategy=_case(o1), n={"quick": 350, "thorough": 2500},
               reduce=_reduce),
        Stream("phases", body, strategy=_case(o2), n={"quick": 250, "thorough": 2000},
               reduce=_reduce),
        Stream("applicability_table", body_applicable, cases=cases),
    ]
