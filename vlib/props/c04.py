"""C04 - a dead supply rail isolates everything below it."""

from vlib import build as B
from vlib import gen as G
from vlib import refmodel as R
from vlib import spec as S
from vlib.props.c01 import classify, solve_or_skip
from vlib.runner import Fail, Stream, jhash
from vlib.table import Table

ID = "C04"
LEVEL = "exploration"
RULE = (
    "Generated trees (all kinds, tables, sleep currents drawn > 0 three times out of four) "
    "with 2-4 load phases in which sources, converters, regulators, switches and the mux are "
    "active in drawn subsets of the phases, plus 0 V sources; a second stream without "
    "phases (0 V sources only). The expected dead set is computed from the spec alone "
    "(supply dead or inactive; mux: no live input). Dead rows must be exactly zero in "
    "Vin/Vout/Iin/Iout/Power/Loss; an inactive element on a live supply must draw exactly "
    "its sleep current and dissipate iis*|Vin|; live loads with a non-zero value must draw "
    "current. Non-trivial: a dead subtree of depth >= 2 with >= 2 kinds, or an inactive "
    "element with iis > 0 on a live rail; distinct by spec hash."
)
ASSUMPTIONS = [
    "no live series element drops its whole input (drops <= 10 % of nominal by construction)",
    "phase configurations only on the kinds documented to support them",
    "zero cells are compared exactly (the code short-circuits; -0.0 == 0.0 accepted)",
]

ZERO_COLS = ("Vin (V)", "Vout (V)", "Iin (A)", "Iout (A)", "Power (W)", "Loss (W)")


def check_phase(spec, tab, phase, stats):
    powered, out, sel = R.live_map(spec, phase)
    nm = S.node_map(spec)
    dm = S.depth_map(spec)
    nontriv = False
    dead_roots = []
    for n in spec["nodes"]:
        # outside the domain of the liveness rule: a powered, active regulator whose input
        # does not exceed its dropout voltage legitimately outputs 0 V
        if n["kind"] == "LinReg" and powered[n["name"]] and S.active_in(n, phase):
            vin_ = tab.by[(phase, n["name"])]["Vin (V)"]
            if abs(vin_) <= abs(n["params"].get("vdrop", 0.0)):
                from vlib.runner import Skip
                raise Skip("regulator_in_full_dropout")
    for n in spec["nodes"]:
        name, k = n["name"], n["kind"]
        r = tab.by[(phase, name)]
        is_root = k != "Source" and powered[name] and not out[name] and k not in S.LOADS
        is_root = is_root or (k == "Source" and not out[name])
        if k == "PMux" and not powered[name] and any(
                True for _ in n["parents"]):
            is_root = is_root or all(not out[p] for p in n["parents"]) and any(
                powered[p] for p in n["parents"])
        if is_root:
            desc = [d for d in S.descendants(spec, name) if not powered[d]]
            if desc:
                depth = max(dm[d] for d in desc) - dm[name]
                kinds = {nm[d]["kind"] for d in desc}
                stats.cls("dead_subtree_depth={}".format(min(depth, 4)))
                if k == "Source":
                    cause = "zero_volt_source" if n["params"]["vo"] == 0.0 else "inactive_Source"
                else:
                    cause = "inactive_" + k
                stats.cls("cause:" + cause)
                if depth >= 2 and len(kinds) >= 2:
                    nontriv = True
        if not powered[name]:
            for c in ZERO_COLS:
                if r[c] != 0.0:
                    raise Fail("dead.nonzero." + k,
                               "phase {!r}: {!r} ({}) has a dead supply but {} = {!r}".format(
                                   phase, name, k, c, r[c]))
            stats.cls("dead_row")
            continue
        # powered
        if k in ("Converter", "LinReg", "PSwitch", "PMux") and not S.active_in(n, phase):
            iis = abs(n["params"].get("iis", 0.0))
            vin = r["Vin (V)"]
            if r["Iin (A)"] != iis:
                raise Fail("inactive.iin." + k,
                           "phase {!r}: inactive {!r} ({}) draws {!r}, sleep current {!r}".format(
                               phase, name, k, r["Iin (A)"], iis))
            if r["Vout (V)"] != 0.0 or r["Iout (A)"] != 0.0:
                raise Fail("inactive.output." + k,
                           "phase {!r}: inactive {!r} outputs {!r} V / {!r} A".format(
                               phase, name, r["Vout (V)"], r["Iout (A)"]))
            want = iis * abs(vin)
            for c in ("Power (W)", "Loss (W)"):
                if abs(r[c] - want) > 1e-12 * want:
                    raise Fail("inactive.power." + k,
                               "phase {!r}: inactive {!r}: {} {!r}, iis*|Vin| = {!r}".format(
                                   phase, name, c, r[c], want))
            if vin == 0.0:
                raise Fail("inactive.vin." + k, "{!r} should see a live supply".format(name))
            stats.cls("inactive_on_live_rail")
            if iis > 0:
                nontriv = True
                stats.cls("inactive_with_sleep_current")
        elif k == "Source":
            pass
        else:
            if r["Vin (V)"] == 0.0:
                raise Fail("live.vin_zero." + k,
                           "phase {!r}: {!r} ({}) is on a live supply but Vin = 0".format(
                               phase, name, k))
            # (only loads whose current is above the solver's absolute resolution of 1e-8 A)
            if k in S.LOADS and R.law_iin(n, phase, r["Vin (V)"], 0.0) > 1e-6 and not (
                    r["Iin (A)"] > 0):
                raise Fail("live.load_no_current." + k,
                           "phase {!r}: live load {!r} draws {!r}".format(
                               phase, name, r["Iin (A)"]))
    # a mux without live input
    for n in spec["nodes"]:
        if n["kind"] == "PMux" and sel[n["name"]] is None:
            stats.cls("cause:mux_no_live_input")
    return nontriv


def body(spec, stats):
    classify(spec, stats)
    for k, v in spec.get("_gen", {}).get("excluded", {}).items():
        stats.excluded[k] += v
    sys = B.build(spec)
    df = solve_or_skip(sys, stats)
    tab = Table(df)
    nt = False
    for ph in (list(spec["phases"]) or [""]):
        nt = check_phase(spec, tab, ph, stats) or nt
    stats.cls("solved")
    if nt:
        stats.nontriv(jhash([spec["nodes"], spec["phases"]]), sample=S.summarize(spec))


def streams(tier, avoid):
    big = tier == "thorough"
    mn = 14 if big else 10
    o1 = G.Opts(max_nodes=mn, phases=True, zero_source=True, avoid=avoid, min_nodes=3,
                odd_phase_conf=True)
    o2 = G.Opts(max_nodes=mn, zero_source=True, avoid=avoid, min_nodes=3)
    return [
        Stream("phases", body, strategy=G.systems(o1), n={"quick": 900, "thorough": 7000},
               reduce=S.reductions),
        Stream("static", body, strategy=G.systems(o2), n={"quick": 400, "thorough": 3000},
               reduce=S.reductions),
    ]


def _probe_f18():
    from vlib.props.c03 import _spec2
    from vlib.runner import Stats
    spec = _spec2([("V0", "Source", [], {"vo": 0.0}),
                   ("Trace", "RLoss", ["V0"], {"rs": 0.1}),
                   ("Buck", "Converter", ["Trace"], {"vo": 1.8, "eff": 0.9, "iis": 1e-8})])
    spec["phases"] = {"sleep": 1.0, "active": 1.0}
    spec["nodes"][2]["pconf"] = ["sleep"]
    try:
        body(spec, Stats())
    except Fail as f:
        if f.sig.startswith("dead.nonzero."):
            return ("0 V source - RLoss - Converter(iis=1e-8, inactive): the RLoss row reports "
                    "Iout = 1e-08 A on a dead rail (stale start value accepted by np.allclose's "
                    "default atol=1e-8)")
        raise
    return None


PROBES = {"F18": _probe_f18}
