"""C07 - Subsystem, total, average and energy rows are exact aggregates."""

from vlib import build as B
from vlib import gen as G
from vlib import refmodel as R
from vlib import spec as S
from vlib.props.c01 import classify, solve_or_skip
from vlib.runner import Fail, Stream, jhash
from vlib.table import Table, isnum

ID = "C07"
LEVEL = "exploration"
RULE = (
    "Systems with 1-3 sources, with/without a PMux joining them, with/without phases, "
    "solved with energy=True, each built in a drawn topological insertion order (the "
    "edit-history part of the quantifier is exercised by the C16 machine, which runs this "
    "same aggregate oracle after every step). Oracle recomputed from the component rows and "
    "the spec: Domain = root source following the mux's selected input; Subsystem rows = "
    "source voltage/current/power and the loss sum over exactly that domain; System total = "
    "sum of source powers / all losses / 100(P-L)/P <= 100; System average = "
    "duration-weighted means; 24h energy = P*24*share, per-phase energies sum to the "
    "average's. Non-trivial: >= 2 sources each with >= 2 lossy components, or a mux joining "
    "two sources above a lossy subtree; with phases additionally >= 2 different durations "
    "and totals; distinct by (spec hash, order)."
)
ASSUMPTIONS = [
    "I3: a Subsystem row's voltage is the source row's Vin",
    "re-aggregation compared at 1e-9 relative",
    "average efficiency = duration-weighted mean of the per-phase total efficiencies",
]
REL = 1e-9


def _eq(a, b, rel=REL):
    """rel == 1e-7 marks an Efficiency cell (percent): 1e-7 absolute (a difference of two
    nearly equal sums divided by a power; 0 vs 1e-14 is the same number)"""
    if not (isnum(a) and isnum(b)):
        return False
    if rel == 1e-7:
        return abs(a - b) <= 1e-7 + 1e-9 * max(abs(a), abs(b))
    return abs(a - b) <= rel * max(abs(a), abs(b)) + 1e-300


def eff(p, l):
    return 100.0 * abs((p - l) / p) if p > 0 else 100.0


def check_aggregates(spec, tab, energy=True, stats=None, pre=""):
    """Raises Fail; returns True when the case is non-trivial."""
    nm = S.node_map(spec)
    srcs = S.sources(spec)
    multi = len(srcs) >= 2
    phases = list(spec["phases"]) or [""]
    tot_d = sum(spec["phases"].values()) if spec["phases"] else None
    per_phase = []
    nontriv = False
    if multi != ("Domain" in tab.cols):
        raise Fail(pre + "domain.column", "{} sources but Domain column {}".format(
            len(srcs), "present" if "Domain" in tab.cols else "absent"))
    for ph in phases:
        dom = R.domain_map(spec, ph)
        share = 24.0 if not spec["phases"] else 24.0 * spec["phases"][ph] / tot_d
        lossy = {s: 0 for s in srcs}
        dloss = {s: 0.0 for s in srcs}
        allloss = 0.0
        for n in spec["nodes"]:
            r = tab.by[(ph, n["name"])]
            if multi and r["Domain"] != dom[n["name"]]:
                raise Fail(pre + "domain.attribution",
                           "phase {!r}: {!r} ({}) is powered by {!r} but attributed to "
                           "{!r}".format(ph, n["name"], n["kind"], dom[n["name"]], r["Domain"]))
            dloss[dom[n["name"]]] += r["Loss (W)"]
            allloss += r["Loss (W)"]
            if r["Loss (W)"] > 0:
                lossy[dom[n["name"]]] += 1
            if energy:
                want = r["Power (W)"] * share
                if not _eq(r["24h energy (Wh)"], want):
                    raise Fail(pre + "energy.component",
                               "phase {!r}: {!r} energy {!r}, Power*{} = {!r}".format(
                                   ph, n["name"], r["24h energy (Wh)"], share, want))
        srcP = 0.0
        for s in srcs:
            sr = tab.by[(ph, s)]
            srcP += sr["Power (W)"]
            if not multi:
                continue
            sub = tab.special.get((ph, "Subsystem " + s))
            if sub is None:
                raise Fail(pre + "subsystem.missing", "phase {!r}: no Subsystem row for {!r}".format(
                    ph, s))
            checks = (("Vin (V)", sr["Vin (V)"]), ("Iout (A)", sr["Iout (A)"]),
                      ("Power (W)", sr["Power (W)"]), ("Loss (W)", dloss[s]),
                      ("Efficiency (%)", eff(sr["Power (W)"], dloss[s])))
            if energy:
                checks += (("24h energy (Wh)", sr["Power (W)"] * share),)
            for c, want in checks:
                if not _eq(sub[c], want, 1e-9 if c != "Efficiency (%)" else 1e-7):
                    raise Fail(pre + "subsystem." + c.split()[0].lower(),
                               "phase {!r}: Subsystem {!r} {} = {!r}, expected {!r} (losses of "
                               "its domain: {})".format(
                                   ph, s, c, sub[c], want,
                                   {k: tab.by[(ph, k)]["Loss (W)"] for k in dom
                                    if dom[k] == s and tab.by[(ph, k)]["Loss (W)"]}))
        if multi:
            extra = [k for (p, k) in tab.special if p == ph and k.startswith("Subsystem ")
                     and k[len("Subsystem "):] not in srcs]
            if extra:
                raise Fail(pre + "subsystem.extra", "unexpected rows {}".format(extra))
        tot = tab.special.get((ph, "System total"))
        if tot is None:
            raise Fail(pre + "total.missing", "phase {!r}: no System total row".format(ph))
        e = eff(srcP, allloss)
        checks = (("Power (W)", srcP), ("Loss (W)", allloss), ("Efficiency (%)", e))
        if energy:
            checks += (("24h energy (Wh)", srcP * share),)
        if not multi:
            checks += (("Iout (A)", tab.by[(ph, srcs[0])]["Iout (A)"]),)
        for c, want in checks:
            if not _eq(tot[c], want, 1e-9 if c != "Efficiency (%)" else 1e-7):
                raise Fail(pre + "total." + c.split()[0].lower(),
                           "phase {!r}: System total {} = {!r}, expected {!r}".format(
                               ph, c, tot[c], want))
        if isnum(tot["Efficiency (%)"]) and tot["Efficiency (%)"] > 100.0 + 1e-3:
            raise Fail(pre + "total.eff_above_100", "phase {!r}: total efficiency {!r}".format(
                ph, tot["Efficiency (%)"]))
        per_phase.append((srcP, allloss, e, tab.by[(ph, srcs[0])]["Iout (A)"],
                          tot["24h energy (Wh)"] if energy else None))
        if multi and sum(1 for s in srcs if lossy[s] >= 2) >= 2:
            nontriv = True
        mux = [n for n in spec["nodes"] if n["kind"] == "PMux"]
        if multi and mux:
            roots = {dom[p] for p in mux[0]["parents"]}
            if len(roots) >= 2 and any(
                    tab.by[(ph, d)]["Loss (W)"] > 0
                    for d in S.descendants(spec, mux[0]["name"])):
                nontriv = True
    avg = tab.special.get(("", "System average"))
    if spec["phases"]:
        if avg is None:
            raise Fail(pre + "average.missing", "no System average row")
        durs = [spec["phases"][p] for p in phases]
        w = sum(durs)
        wm = lambda i: sum(v[i] * d for v, d in zip(per_phase, durs)) / w  # noqa: E731
        checks = (("Power (W)", wm(0)), ("Loss (W)", wm(1)), ("Efficiency (%)", wm(2)))
        if not multi:
            checks += (("Iout (A)", wm(3)),)
        if energy:
            checks += (("24h energy (Wh)", wm(0) * 24.0),)
        for c, want in checks:
            if not _eq(avg[c], want, 1e-9 if c != "Efficiency (%)" else 1e-7):
                raise Fail(pre + "average." + c.split()[0].lower(),
                           "System average {} = {!r}, expected duration-weighted {!r} "
                           "(phases {}, per-phase {})".format(
                               c, avg[c], want, spec["phases"], [v[:3] for v in per_phase]))
        if energy:
            se = sum(v[4] for v in per_phase)
            if not _eq(se, avg["24h energy (Wh)"], 1e-9):
                raise Fail(pre + "energy.sum",
                           "per-phase energies of System total sum to {!r}, average row has "
                           "{!r}".format(se, avg["24h energy (Wh)"]))
        if len(set(durs)) < 2 or len({round(v[0], 12) for v in per_phase}) < 2:
            nontriv = nontriv and False
    elif avg is not None:
        raise Fail(pre + "average.unexpected", "System average row without phases")
    return nontriv


def body(case, stats):
    spec, order = case["spec"], case["order"]
    classify(spec, stats)
    for k, v in spec.get("_gen", {}).get("excluded", {}).items():
        stats.excluded[k] += v
    sys = B.build(spec, order=order)
    df = solve_or_skip(sys, stats, energy=True)
    tab = Table(df)
    nt = check_aggregates(spec, tab, True, stats)
    if spec["phases"]:
        # the aggregates of a single requested phase are those of the all-phase result
        from vlib.props.c06 import _single_vs_all
        _single_vs_all(sys, spec, df, energy=True)
        # "after any history": the phases are re-defined with other durations (other total,
        # other shares) on the system that has just been analysed; its single-phase results
        # must be those of a fresh system that was built with the new durations
        spec2 = S.clone(spec)
        spec2["phases"] = {p: d * (2.0 + i) for i, (p, d) in enumerate(spec["phases"].items())}
        if not spec.get("_phases_last"):
            sys.set_sys_phases(dict(spec2["phases"]))
            df2 = B.solve(B.build(spec2, order=order), energy=True)
            check_aggregates(spec2, Table(df2), True, None, pre="redefined.")
            _single_vs_all(sys, spec2, df2, energy=True)
            stats.cls("phases_redefined_after_analysis")
    stats.cls("solved")
    if spec["phases"]:
        stats.cls("with_phases")
    if order != sorted(order):
        stats.cls("permuted_insertion_order")
    if nt:
        stats.nontriv(jhash([spec["nodes"], spec["phases"], order]),
                      sample={"order": order, **S.summarize(spec)})


def body_history(ops, stats):
    """Aggregates of a system reached through an edit history."""
    from vlib import machine as M
    from vlib.runner import Stats

    d = M.replay_ops(ops, set(), Stats())
    if not d.in_sync():
        stats.cls("history_out_of_model")
        return
    spec = {"name": "Sys", "phases": d.model["phases"], "nodes": M.topo_nodes(d.model)}
    if any(n.get("pconf") for n in spec["nodes"]) and not spec["phases"]:
        stats.cls("history_pconf_without_phases")
    try:
        df = B.solve(d.sys, energy=True)
    except (ValueError, RuntimeError):
        stats.cls("not_solved")
        return
    nt = check_aggregates(spec, Table(df), True, stats, pre="history.")
    stats.cls("history_checked")
    if len(S.sources(spec)) >= 2 and len(spec["nodes"]) >= 4:
        stats.nontriv(jhash(ops), sample=[M.op_text(o) for o in ops][:10])


def _reduce(case):
    for c in S.reductions(case["spec"]):
        yield {"spec": c, "order": list(range(len(c["nodes"])))}


def streams(tier, avoid):
    big = tier == "thorough"
    mn = 14 if big else 10
    o1 = G.Opts(max_nodes=mn, min_nodes=4, avoid=avoid, zero_source=True)
    o2 = G.Opts(max_nodes=mn, min_nodes=4, phases=True, avoid=avoid, zero_source=True)
    from vlib.props.c12 import histories
    return [
        Stream("after_history", body_history, strategy=histories(),
               n={"quick": 150, "thorough": 1500}),
        Stream("static", body, strategy=G.system_with_order(o1),
               n={"quick": 600, "thorough": 5000}, reduce=_reduce),
        Stream("phases", body, strategy=G.system_with_order(o2),
               n={"quick": 400, "thorough": 3500}, reduce=_reduce),
    ]
