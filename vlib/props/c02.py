"""C02 - energy conservation, loss / efficiency / temperature accounting."""

from hypothesis import strategies as st

from vlib import build as B
from vlib import gen as G
from vlib import spec as S
from vlib.props.c01 import classify, solve_or_skip
from vlib.runner import Fail, Stream, jhash
from vlib.table import Table, isnum

ID = "C02"
LEVEL = "exploration"
RULE = (
    "Systems as in C01 plus thermal resistances (0 or 0.1..200 C/W), ambient ta in "
    "[-55,125] or the default, loads counted as power or as loss, with and without load "
    "phases (every phase checked). Algebraic identities on the reported table: "
    "P-L=|Vout|*Iout, 0<=L<=P, Eff=100(P-L)/P in [0,100], load rows carry consumption as "
    "Power xor Loss, sum(source P)=sum(load P)+sum(Loss), rise=rt*dissipation, peak=ta+rise. "
    "Non-trivial: solved, total loss > 0, >= 3 kinds, and (thermal stream) a row with "
    "rt>0 and loss>0 next to a dead or zero-loss row; distinct by spec hash + ta."
)
ASSUMPTIONS = [
    "I1: the dissipation heating a load is its consumption |Vin|*Iin whether or not it is "
    "counted as a loss (docstrings: rt of the load; repo tests assert tr == power*rt)",
    "identities that pass through the convergence residual are compared with "
    "2e-5*|x| + 3e-8*(|Vin|+|Vout|); pure products of reported cells with 1e-9 relative",
    "I6: Efficiency cells of loads and of rows with Power = 0 are not asserted",
]

K = 3.0


def check_phase(spec, tab, phase, ta, stats):
    nm = S.node_map(spec)
    # the temperature columns are shown per phase frame, and only when some row of that
    # phase has a rise > 0 (blank cells otherwise): blank is accepted iff nothing heats up
    show_t = "Temp. rise (°C)" in tab.cols and any(
        tab.by[(phase, n["name"])]["Temp. rise (°C)"] != "" for n in spec["nodes"])
    srcP = loadP = lossS = 0.0
    tol_sum = 0.0
    any_rise = False
    for n in spec["nodes"]:
        name, k = n["name"], n["kind"]
        r = tab.by[(phase, name)]
        vin, vout, iin, iout = r["Vin (V)"], r["Vout (V)"], r["Iin (A)"], r["Iout (A)"]
        P, L, E = r["Power (W)"], r["Loss (W)"], r["Efficiency (%)"]
        for c, v in (("Power", P), ("Loss", L)):
            if not isnum(v) or v != v:
                raise Fail("cell." + c, "{!r}: {} = {!r}".format(name, c, v))
        tol = 2e-5 * max(abs(P), abs(L)) + K * 1e-8 * (abs(vin) + abs(vout))
        tol_sum += tol
        if L < -tol:
            raise Fail("loss.negative." + k, "{!r} ({}): Loss {!r} < 0".format(name, k, L))
        if P < 0:
            raise Fail("power.negative." + k, "{!r}: Power {!r} < 0".format(name, P))
        if k in S.LOADS:
            cons = abs(vin) * iin
            as_loss = bool(n["params"].get("loss", False))
            wantP, wantL = (0.0, cons) if as_loss else (cons, 0.0)
            if abs(P - wantP) > 1e-9 * abs(wantP) or abs(L - wantL) > 1e-9 * abs(wantL):
                raise Fail("load.accounting." + k,
                           "{!r} ({}, loss={}): Power {!r} Loss {!r}, consumption "
                           "|Vin|*Iin = {!r}".format(name, k, as_loss, P, L, cons))
            loadP += P
            lossS += L
            dissip = cons
        else:
            handed = abs(vout) * iout
            if abs((P - L) - handed) > tol:
                raise Fail("conservation." + k,
                           "{!r} ({}): Power {!r} - Loss {!r} = {!r} but hands on "
                           "|Vout|*Iout = {!r}".format(name, k, P, L, P - L, handed))
            if L > P + tol:
                raise Fail("loss.exceeds_power." + k,
                           "{!r} ({}): Loss {!r} > Power {!r}".format(name, k, L, P))
            if P > 0:
                if not isnum(E):
                    raise Fail("eff.cell." + k, "{!r}: Efficiency {!r}".format(name, E))
                want = 100.0 * (P - L) / P
                etol = 1e-7 + 200.0 * tol / P
                if abs(E - want) > etol or E < -etol or E > 100.0 + etol:
                    raise Fail("eff.value." + k,
                               "{!r} ({}): Efficiency {!r}, 100*(P-L)/P = {!r}".format(
                                   name, k, E, want))
            if k == "Source":
                srcP += P
            lossS += L
            dissip = L
        # thermal
        if k != "Source":
            rt = abs(n["params"].get("rt", 0.0))
            want_tr = rt * dissip
            if show_t:
                tr, tp = r["Temp. rise (°C)"], r["Peak temp. (°C)"]
                if not isnum(tr) or not isnum(tp):
                    raise Fail("thermal.cell." + k, "{!r}: rise {!r} peak {!r}".format(
                        name, tr, tp))
                if abs(tr - want_tr) > 1e-9 * abs(want_tr):
                    raise Fail("thermal.rise." + k,
                               "{!r} ({}): rise {!r}, rt*dissipation = {}*{} = {!r}".format(
                                   name, k, tr, rt, dissip, want_tr))
                if abs(tp - (ta + tr)) > 1e-9 * (abs(ta) + abs(tr)):
                    raise Fail("thermal.peak." + k,
                               "{!r} ({}): peak {!r}, ambient {} + rise {!r} = {!r}".format(
                                   name, k, tp, ta, tr, ta + tr))
                if tr > 0:
                    any_rise = True
            elif want_tr > 0:
                raise Fail("thermal.hidden." + k,
                           "{!r}: rt*dissipation = {!r} > 0 but no temperature columns".format(
                               name, want_tr))
        elif show_t and (r["Temp. rise (°C)"] != "" or r["Peak temp. (°C)"] != ""):
            pass  # sources carry no temperature; blank expected, any content ignored
    # system balance
    if abs(srcP - (loadP + lossS)) > tol_sum + 1e-12:
        raise Fail("system.balance",
                   "phase {!r}: sources supply {!r} W, loads take {!r} W, losses {!r} W "
                   "(difference {!r}, tolerance {!r})".format(
                       phase, srcP, loadP, lossS, srcP - loadP - lossS, tol_sum))
    tot = tab.special.get((phase, "System total"))
    if tot is not None and isnum(tot["Power (W)"]):
        if abs((tot["Power (W)"] - tot["Loss (W)"]) - loadP) > tol_sum + 1e-9 * abs(loadP):
            raise Fail("system.total_row",
                       "phase {!r}: System total P-L = {!r} but loads take {!r}".format(
                           phase, tot["Power (W)"] - tot["Loss (W)"], loadP))
    return lossS, any_rise


def body(case, stats):
    spec, ta = case["spec"], case["ta"]
    classify(spec, stats)
    for k, v in spec.get("_gen", {}).get("excluded", {}).items():
        stats.excluded[k] += v
    sys = B.build(spec)
    kw = {} if ta is None else {"ta": ta}
    df = solve_or_skip(sys, stats, **kw)
    tab = Table(df)
    tav = 25.0 if ta is None else ta
    phases = list(spec["phases"]) or [""]
    if sorted(tab.phases()) != sorted(phases):
        raise Fail("phases.rows", "table phases {} vs {}".format(tab.phases(), phases))
    tot_loss, rise = 0.0, False
    for ph in phases:
        l, r = check_phase(spec, tab, ph, tav, stats)
        tot_loss += l
        rise = rise or r
    stats.cls("solved")
    for n in spec["nodes"]:
        ig = n["params"].get("ig")
        if n["kind"] == "PMux" and isinstance(ig, dict) and len(ig["vi"]) > 1:
            for ph in phases:
                r, r0 = tab.by[(ph, n["name"])], tab.by[(ph, n["parents"][0])]
                if r["Iout (A)"] > 0 and r["Vin (V)"] != r0["Vout (V)"]:
                    stats.cls("mux_2d_ig_runs_from_later_input")
                    break
    if spec["phases"]:
        stats.cls("with_phases")
    kinds = {n["kind"] for n in spec["nodes"]}
    if rise:
        stats.cls("temperature_columns_shown")
        # a dead / zero-loss row in the same table
        zero = any(r["Loss (W)"] == 0.0 and r["Power (W)"] == 0.0 and r["Type"] != "SOURCE"
                   for r in tab.by.values())
        if zero:
            stats.cls("thermal_with_dead_or_idle_row")
    if tot_loss > 0 and len(kinds) >= 3:
        stats.nontriv(jhash([spec["nodes"], spec["phases"], ta]),
                      sample={"ta": ta, **S.summarize(spec)})


def _case(o):
    return st.fixed_dictionaries({
        "spec": G.systems(o),
        "ta": st.one_of(st.none(), st.floats(-55.0, 125.0, allow_nan=False),
                        st.sampled_from([0.0, 25.0, 40.0, -40.0, 85.0])),
    })


def _reduce(case):
    for c in S.reductions(case["spec"]):
        yield {"spec": c, "ta": case["ta"]}


def streams(tier, avoid):
    big = tier == "thorough"
    mn = 14 if big else 9
    o1 = G.Opts(max_nodes=mn, thermal=True, zero_source=True, avoid=avoid)
    o2 = G.Opts(max_nodes=mn, thermal=True, phases=True, zero_source=True, avoid=avoid)
    # a PMux with a 2-D ig table running from a later input because its first one is dead
    o3 = G.Opts(max_nodes=mn, thermal=True, phases=True, zero_source=True, mux_focus=True,
                similar_sources=True, avoid=avoid)
    return [
        Stream("static", body, strategy=_case(o1), n={"quick": 800, "thorough": 6000},
               reduce=_reduce),
        Stream("phases", body, strategy=_case(o2), n={"quick": 500, "thorough": 4000},
               reduce=_reduce),
        Stream("mux2d", body, strategy=_case(o3), n={"quick": 300, "thorough": 2500},
               reduce=_reduce),
    ]


def _probe_f1():
    from vlib.runner import Stats
    spec = {"name": "probe", "phases": {}, "nodes": [
        {"name": "Vneg", "kind": "Source", "params": {"vo": -12.0, "rs": 1.0}, "limits": None,
         "parents": [], "pref": [], "group": "", "rail": "", "pconf": None},
        {"name": "Load", "kind": "ILoad", "params": {"ii": 1.0}, "limits": None,
         "parents": ["Vneg"], "pref": ["name"], "group": "", "rail": "", "pconf": None}]}
    try:
        body({"spec": spec, "ta": None}, Stats())
    except Fail as f:
        if f.sig.startswith("conservation.Source") or f.sig == "system.balance":
            return ("Source(vo=-12, rs=1) at 1 A: Power 12 W - Loss 1 W = 11 W but hands on "
                    "13 V x 1 A = 13 W")
        raise
    return None


PROBES = {"F1": _probe_f1}
