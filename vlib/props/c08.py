"""C08 - the rail report is the solve() table summed per supply rail."""

import re

from hypothesis import strategies as st

from vlib import build as B
from vlib import gen as G
from vlib import refmodel as R
from vlib import spec as S
from vlib.props.c01 import classify, solve_or_skip
from vlib.runner import Fail, Stream, jhash
from vlib.table import Table, frames_equal, isnum, _plain

ID = "C08"
LEVEL = "exploration"
RULE = (
    "Systems with unique rail names on a drawn subset of the non-load components (none / "
    "some / all), with and without phases, PMux, several sources, and random limits so that "
    "single members and whole rails carry warnings. Oracle from the solve() rows and the "
    "spec: supplier(n) = parent (mux: selected input); members(r, phase) = components whose "
    "supplier owns rail r; rail_rep() has exactly one row per (phase, rail with members); "
    "Voltage = owner's Vout; Current/Power/Loss = sums of members' Iin/Power/Loss (1e-9); "
    "warning tokens = union of the members' tokens. No rails => rail_rep() == solve() cell "
    "for cell. Non-trivial: >= 2 rails with >= 2 members each, or a mux member, or a rail "
    "all of whose members carry the same non-empty warning; distinct by spec hash. "
    "Half of the cases pass solve() arguments (ta, phase, energy, tags, vtol, itol) to both "
    "solve() and rail_rep(): the report must be the summary of that very table."
)
ASSUMPTIONS = [
    "I7: with rails defined but feeding nothing, None or an empty frame are both accepted",
    "warning cells are compared as sets of limit tokens",
    "the Efficiency column of the rail report is not part of the property",
]


def tokens(cell):
    return set(t for t in re.split(r"[,\s]+", cell or "") if t)


def body(case, stats):
    if "spec" in case and "kw" in case:
        spec, kw = case["spec"], dict(case["kw"])
    else:  # replay files written before the keyword arguments were generated
        spec, kw = case, {}
    if kw.get("phase") is not None and spec["phases"]:
        names = list(spec["phases"])
        kw["phase"] = names[kw["phase"] % len(names)]
    else:
        kw.pop("phase", None)
    kw = {k: v for k, v in kw.items() if v is not None}
    if kw:
        stats.cls("with_solve_arguments:" + "+".join(sorted(kw)))
    classify(spec, stats)
    for k, v in spec.get("_gen", {}).get("excluded", {}).items():
        stats.excluded[k] += v
    sys = B.build(spec)
    df = solve_or_skip(sys, stats, **kw)
    try:
        rr = sys.rail_rep(**kw)
    except (ValueError, RuntimeError):
        stats.cls("not_solved:rail_rep")
        return
    except Exception as e:
        raise Fail("rail_rep.exception." + type(e).__name__,
                   "solve() returned but rail_rep() raised {}: {}".format(type(e).__name__, e))
    rails = {n["rail"]: n["name"] for n in spec["nodes"] if n["rail"]}
    if not rails:
        stats.cls("no_rails")
        d = frames_equal(rr, df) if rr is not None else "rail_rep() returned None"
        if d:
            raise Fail("norails.differs", "no rails defined but rail_rep() != solve(): " + d)
        stats.nontriv(jhash(["norails", spec["nodes"], spec["phases"]]))
        return
    tab = Table(df)
    phases = ([kw["phase"]] if "phase" in kw else list(spec["phases"])) or [""]
    want = {}
    nontriv = False
    for ph in phases:
        sup, _sel = R.supplier_map(spec, ph)
        mem = {}
        for n in spec["nodes"]:
            s = sup[n["name"]]
            if s is None:
                continue
            r = S.node_map(spec)[s]["rail"]
            if r:
                mem.setdefault(r, []).append(n["name"])
        big = 0
        for r, members in mem.items():
            rows = [tab.by[(ph, m)] for m in members]
            w = set()
            for x in rows:
                w |= tokens(x["Warnings"])
            want[(ph, r)] = {
                "Voltage (V)": tab.by[(ph, rails[r])]["Vout (V)"],
                "Current (A)": sum(x["Iin (A)"] for x in rows),
                "Power (W)": sum(x["Power (W)"] for x in rows),
                "Loss (W)": sum(x["Loss (W)"] for x in rows),
                "Warnings": w,
                "members": members,
            }
            if len(members) >= 2:
                big += 1
            if any(S.node_map(spec)[m]["kind"] == "PMux" for m in members):
                nontriv = True
                stats.cls("mux_member")
            ws = [x["Warnings"] for x in rows]
            if ws[0] != "" and all(x == ws[0] for x in ws):
                nontriv = True
                stats.cls("rail_with_uniform_warning")
        if big >= 2:
            nontriv = True
    if not want:
        stats.cls("rails_feed_nothing")
        if rr is not None and len(rr) != 0:
            raise Fail("empty.rows", "no rail feeds anything but rail_rep() has {} rows".format(
                len(rr)))
        return
    if rr is None:
        raise Fail("missing.report", "rails {} feed components but rail_rep() returned "
                   "None".format(sorted({r for (_p, r) in want})))
    got = {}
    for rec in rr.to_dict("records"):
        rec = _plain(rec)
        key = (rec.get("Phase", ""), rec["Rail"])
        if key in got:
            raise Fail("rows.duplicate", "rail report lists {} twice".format(key))
        got[key] = rec
    if set(got) != set(want):
        raise Fail("rows.set",
                   "rail report rows {} but rails with members are {}".format(
                       sorted(set(got) - set(want)) or sorted(got),
                       sorted(set(want) - set(got)) or sorted(want)))
    for key, w in want.items():
        g = got[key]
        for c in ("Voltage (V)", "Current (A)", "Power (W)", "Loss (W)"):
            if not isnum(g[c]) or abs(g[c] - w[c]) > 1e-9 * max(abs(g[c]), abs(w[c])):
                raise Fail("rail." + c.split()[0].lower(),
                           "{}: {} = {!r}, expected {!r} over members {}".format(
                               key, c, g[c], w[c], w["members"]))
        if tokens(g["Warnings"]) != w["Warnings"]:
            raise Fail("rail.warnings",
                       "{}: warnings {!r}, members {} carry {}".format(
                           key, g["Warnings"], w["members"],
                           [tab.by[(key[0], m)]["Warnings"] for m in w["members"]]))
    stats.cls("solved")
    if any(w["Warnings"] for w in want.values()):
        stats.cls("rail_with_warning")
    if nontriv:
        stats.nontriv(jhash([spec["nodes"], spec["phases"]]), sample=S.summarize(spec))


def _case(o):
    # rail_rep() takes the arguments of solve() and must report that very table
    kw = st.one_of(
        st.just({}),
        st.fixed_dictionaries({}, optional={
            "ta": st.one_of(st.sampled_from([-40.0, 0.0, 85.0, 125.0]),
                            st.floats(-55.0, 150.0, allow_nan=False)),
            "phase": st.integers(0, 5),
            "energy": st.booleans(),
            "tags": st.sampled_from([{}, {"Case": "k"}, {"Run": 3, "Corner": "hot"}]),
            "vtol": st.sampled_from([1e-6, 1e-9, 1e-4]),
            "itol": st.sampled_from([1e-6, 1e-9, 1e-4]),
        }))
    return st.fixed_dictionaries({"spec": G.systems(o), "kw": kw})


def _reduce(case):
    if "kw" not in case:
        for c in S.reductions(case):
            yield c
        return
    for c in S.reductions(case["spec"]):
        yield {"spec": c, "kw": case["kw"]}
    for k in list(case["kw"]):
        yield {"spec": case["spec"], "kw": {a: b for a, b in case["kw"].items() if a != k}}


def streams(tier, avoid):
    big = tier == "thorough"
    mn = 14 if big else 10
    o1 = G.Opts(max_nodes=mn, min_nodes=4, rails=True, rail_refs=True, limits=True,
                avoid=avoid, thermal=True)
    o2 = G.Opts(max_nodes=mn, min_nodes=4, rails=True, rail_refs=True, limits=True,
                phases=True, avoid=avoid, zero_source=True, thermal=True)
    return [
        Stream("static", body, strategy=_case(o1), n={"quick": 600, "thorough": 4000},
               reduce=_reduce),
        Stream("phases", body, strategy=_case(o2), n={"quick": 400, "thorough": 3000},
               reduce=_reduce),
    ]
