"""C10 - tabulated parameters: exact on the grid, linear between, clamped outside."""

import math

from hypothesis import strategies as st

from vlib import build as B
from vlib import gen as G
from vlib import refmodel as R
from vlib import spec as S
from vlib.props.c03 import _spec2
from vlib.runner import Fail, Stream, jhash
from vlib.table import Table, cell_eq

ID = "C10"
LEVEL = "exploration"
RULE = (
    "Tables of eff / vdrop / ig for Converter, VLoss, LinReg, PSwitch, PMux and Rectifier "
    "(both modes): 1 vi row with 1..6 io points, or 2..5 vi rows x 2..6 io points; strictly "
    "increasing io axis, vi rows ascending or listed in any drawn order, whose every step is >= 1e-4 of the "
    "largest coordinate of the table (the property's own bound; 1.2e-4 generated); values in "
    "the constructor-valid range, also all-equal and sign-flipped. Queries per table: every "
    "grid point, points on grid lines, cell interiors, all 8 outside regions and far outside "
    "(x1e3). Stream 'direct' evaluates the component's interpolator object; stream 'probe' "
    "observes the parameter through solve() of Source(V, rs=0) - component - ILoad(I), also "
    "with -V; stream 'constant' compares an all-equal table with the constant. Oracle: grid "
    "-> entry; line -> 1-D linear; interior -> within the cell's corner range and equal to one "
    "of the two triangulations; outside -> value at the clamped point; never NaN; 1e-7 "
    "relative. Non-trivial: a 2-D table >= 2x3 with queries in interior, line, corner-outside "
    "and edge-outside; distinct by table hash."
)
ASSUMPTIONS = [
    "I4: inside a 2-D cell only the corner range and 'one of the two triangulations' are required",
    "'largest coordinate' is taken over both axes of the table (Qhull is not scale invariant)",
    "the direct stream calls the private comp._ipr._interp(io, vi); the probe stream uses only "
    "the public API",
]
REL = 1e-7

KINDS = [  # (kind, parameter, zkey, value range)
    ("Converter", "eff", "eff"), ("VLoss", "vdrop", "vdrop"), ("LinReg", "ig", "ig"),
    ("PSwitch", "ig", "ig"), ("PMux", "ig", "ig"), ("Rectifier", "vdrop", "vdrop"),
    ("Rectifier", "ig", "ig"),
]


def _axis(draw, n, top, min_frac_of_top):
    """n strictly increasing non-negative points, last == top, steps >= min_frac*top."""
    lo = max(min_frac_of_top, 1e-3)
    steps = [draw(st.floats(lo, 1.0)) for _ in range(n)]
    if n > 1 and draw(st.integers(0, 2)) == 0:
        steps[0] = 0.0
    tot = sum(steps)
    acc, out = 0.0, []
    for s_ in steps:
        acc += s_
        out.append(top * acc / tot)
    out[-1] = top
    return out


@st.composite
def tables(draw):
    kind, par, zkey = draw(st.sampled_from(KINDS))
    two_d = draw(st.integers(0, 3)) > 0
    ni = draw(st.integers(2, 6)) if two_d else draw(st.integers(1, 6))
    nv = draw(st.integers(2, 5)) if two_d else 1
    vmax = draw(G.logf(0.5, 400.0))
    imax = vmax * draw(G.logf(2.5e-3, 10.0))
    big = max(vmax, imax)
    # every step >= 1.2e-4 * largest coordinate
    fi = 1.2e-4 * big / imax * ni  # as a fraction of the normalised step sum
    fv = 1.2e-4 * big / vmax * nv
    ios = _axis(draw, ni, imax, min(fi, 0.9))
    vis = _axis(draw, nv, vmax, min(fv, 0.9)) if nv > 1 else [vmax]
    if nv > 1 and vis[0] == 0.0:
        vis[0] = vis[1] / 2
    ints = draw(st.integers(0, 9))
    if ints < 3:
        # breakpoints written as Python ints (io only / vi only / both): 1, 2, 5 A is as
        # good a way to write an axis as 1.0, 2.0, 5.0
        if ints in (0, 2):
            ios = sorted(draw(st.lists(st.integers(1, 40), min_size=ni, max_size=ni,
                                       unique=True)))
            if ni > 1 and draw(st.integers(0, 2)) == 0:
                ios[0] = 0
            imax = float(ios[-1])
        if ints in (1, 2):
            vis = sorted(draw(st.lists(st.integers(1, 48), min_size=nv, max_size=nv,
                                       unique=True)))
            vmax = float(vis[-1])
        big = max(vmax, imax)
    ok = all(b - a >= 1.0e-4 * big for a, b in zip(ios, ios[1:])) and all(
        b - a >= 1.0e-4 * big for a, b in zip(vis, vis[1:]))
    const = draw(st.integers(0, 7)) == 0
    if zkey == "eff":
        vs = st.floats(0.05, 1.0)
    elif zkey == "vdrop":
        vs = st.floats(0.0, 0.3).map(lambda f: f * vis[0] * 0.5)
    else:
        vs = G.logf(1e-7, 1e-2).map(lambda f: f * imax)
    c = draw(vs)
    rows = [[c if const else draw(vs) for _ in range(ni)] for _ in range(nv)]
    if nv > 1 and draw(st.integers(0, 2)) == 0:
        # vi rows need not be listed in ascending order (only io is validated)
        perm = draw(st.permutations(list(range(nv))))
        vis = [vis[j] for j in perm]
        rows = [rows[j] for j in perm]
    neg = zkey != "eff" and draw(st.integers(0, 5)) == 0
    if neg and zkey == "vdrop":
        rows = [[-v for v in r] for r in rows]
    neg_axis = draw(st.integers(0, 7)) == 0
    if neg_axis:
        # the same table written with negative currents (a sink's point of view): the axis
        # is still strictly increasing as written
        ios = [-x for x in reversed(ios)]
        rows = [list(reversed(r)) for r in rows]
        if draw(st.booleans()):
            vis = [-v for v in vis]
    fr = draw(st.lists(st.floats(0.02, 0.98), min_size=24, max_size=24))
    return {"neg_axis": neg_axis, "kind": kind, "par": par, "zkey": zkey, "ok": ok, "int_axes": ints < 3,
            "table": {"vi": vis, "io": ios, zkey: rows}, "fr": fr, "const": const}


def queries(tab, fr):
    """(io, vi, class) query points."""
    xs = sorted(abs(x) for x in tab["io"])
    ys = sorted(abs(y) for y in tab["vi"])
    out = []
    it = iter(fr * 4)
    nx = lambda: next(it)  # noqa: E731
    oned = len(ys) == 1
    for y in ys:
        for x in xs:
            out.append((x, y, "grid"))
    for j, y in enumerate(ys):
        for i in range(len(xs) - 1):
            if len(out) < 60:
                out.append((xs[i] + nx() * (xs[i + 1] - xs[i]), y, "line"))
    if not oned:
        for i, x in enumerate(xs):
            for j in range(len(ys) - 1):
                if len(out) < 75:
                    out.append((x, ys[j] + nx() * (ys[j + 1] - ys[j]), "line"))
        for i in range(len(xs) - 1):
            for j in range(len(ys) - 1):
                if len(out) < 100:
                    out.append((xs[i] + nx() * (xs[i + 1] - xs[i]),
                                ys[j] + nx() * (ys[j + 1] - ys[j]), "interior"))
    xin = xs[0] + nx() * (xs[-1] - xs[0])
    yin = ys[0] + nx() * (ys[-1] - ys[0])
    xlo = xs[0] * nx() if xs[0] > 0 else None
    ylo = ys[0] * nx() if ys[0] > 0 else None
    xhi, yhi = xs[-1] * (1 + nx()), ys[-1] * (1 + nx())
    for x, cx in ((xlo, "lo"), (xin, "in"), (xhi, "hi"), (xs[-1] * 1e3, "far")):
        for y, cy in ((ylo, "lo"), (yin, "in"), (yhi, "hi"), (ys[-1] * 1e3, "far")):
            if x is None or y is None or (cx == "in" and cy == "in"):
                continue
            if oned and cx == "in":
                continue
            kind = "outside-corner" if (cx != "in" and cy != "in") else "outside-edge"
            out.append((x, y, kind))
    return out


def make_component(case, name="X"):
    import sysloss.components as C

    kind, par = case["kind"], case["par"]
    kw = {par: case["table"]}
    if kind == "Converter":
        kw["vo"] = 1.0
    elif kind == "LinReg":
        kw["vo"] = 1.0
    return getattr(C, kind)(name, **kw)


def expect(tab, zkey, x, y):
    return R.table_eval(tab, zkey, x, y)


def check_value(got, tab, zkey, x, y, cls, sig):
    cands, where, lo, hi = expect(tab, zkey, x, y)
    if got != got or not math.isfinite(got):
        raise Fail(sig + ".nan", "query (io={!r}, vi={!r}) [{}] gives {!r}".format(x, y, cls, got))
    # barycentric arithmetic: relative to the magnitude of the table's values (a cell whose
    # corners are all 0 next to a non-zero entry can come out as 1e-17)
    zmax = max(abs(v) for row in tab[zkey] for v in row)
    tol = REL * max(abs(hi), abs(got), zmax) + 1e-300
    if not any(abs(got - c) <= tol for c in cands):
        raise Fail("{}.{}".format(sig, where),
                   "query (io={!r}, vi={!r}) [{} / {}]: got {!r}, expected {} (cell corner "
                   "range [{!r}, {!r}]); table {}".format(x, y, cls, where, got, cands, lo, hi,
                                                          tab))
    if not (lo - tol <= got <= hi + tol):
        raise Fail(sig + ".range", "query (io={!r}, vi={!r}): {!r} outside corner range "
                   "[{!r}, {!r}]".format(x, y, got, lo, hi))
    return where


def body_direct(case, stats):
    if not case["ok"]:
        stats.cls("generator_rounding_skipped")
        return
    tab, zkey = case["table"], case["zkey"]
    comp = make_component(case)
    seen = set()
    for (x, y, cls) in queries(tab, case["fr"]):
        # (the interpolator object is always called with magnitudes by the component laws;
        # sign-insensitivity is a public-level property and is checked in the probe stream)
        got = float(comp._ipr._interp(x, y))
        check_value(got, tab, zkey, x, y, cls, "direct")
        seen.add(cls)
        stats.cls("query:" + cls)
    stats.cls("kind:{}.{}".format(case["kind"], case["par"]))
    nv, ni = len(tab["vi"]), len(tab["io"])
    stats.cls("2d" if nv > 1 else "1d")
    if case.get("int_axes"):
        stats.cls("integer_axis")
    if case.get("neg_axis"):
        stats.cls("negative_axis")
    if nv >= 2 and ni >= 3 and {"interior", "line", "outside-corner", "outside-edge"} <= seen:
        stats.nontriv(jhash(tab), sample={"kind": case["kind"], "par": case["par"],
                                          "table": tab})


def probe_spec(case, V, I):
    kind, par = case["kind"], case["par"]
    p = {par: case["table"]}
    if kind == "Converter":
        p["vo"] = 1.0
    elif kind == "LinReg":
        p["vo"] = 0.5 * abs(V)
    if kind == "PMux":
        # the mux runs from its second input (the first one is a 0 V source)
        return _spec2([("S0", "Source", [], {"vo": 0.0}), ("S", "Source", [], {"vo": V}),
                       ("X", kind, ["S0", "S"], p), ("L", "ILoad", ["X"], {"ii": I})])
    return _spec2([("S", "Source", [], {"vo": V}), ("X", kind, ["S"], p),
                   ("L", "ILoad", ["X"], {"ii": I})])


def read_back(case, row, V, I):
    zkey, kind = case["zkey"], case["kind"]
    if zkey == "eff":
        return 1.0 * I / (abs(V) * row["Iin (A)"])
    if zkey == "vdrop":
        d = abs(V) - abs(row["Vout (V)"])
        return d / 2 if kind == "Rectifier" else d
    return row["Iin (A)"] - I


def body_probe(case, stats):
    if not case["ok"]:
        stats.cls("generator_rounding_skipped")
        return
    tab, zkey = case["table"], case["zkey"]
    seen = set()
    qs = queries(tab, case["fr"])
    # keep the cost bounded: grid corners + a spread of the other classes
    pick = [q for q in qs if q[2] != "grid"][::3] + [q for q in qs if q[2] == "grid"][::4]
    for (x, y, cls) in pick[:14]:
        if x == 0.0 or y == 0.0:
            continue
        vals = []
        for V in (y, -y):
            spec = probe_spec(case, V, x)
            try:
                t = Table(B.solve(B.build(spec)))
            except (ValueError, RuntimeError):
                stats.cls("probe_not_solved")
                vals = None
                break
            row = t.by[("", "X")]
            if row["Vin (V)"] != V or row["Iout (A)"] != x:
                raise Fail("probe.pin", "probe system does not pin Vin/Iout: {!r}/{!r} vs "
                           "{!r}/{!r}".format(row["Vin (V)"], row["Iout (A)"], V, x))
            vals.append(read_back(case, row, V, x))
        if vals is None:
            continue
        got = vals[0]
        cands, where, lo, hi = expect(tab, zkey, x, y)
        # reading back subtracts / divides solved quantities: 1e-6 relative of the operands
        scale = {"eff": max(cands), "vdrop": abs(y), "ig": x}[zkey]
        tol = 3e-6 * scale + REL * max(abs(hi), abs(got))
        if got != got or not any(abs(got - c) <= tol for c in cands):
            raise Fail("probe." + where,
                       "{}.{} through solve(): at (io={!r}, vi={!r}) [{}] observed {!r}, "
                       "expected {}; table {}".format(case["kind"], case["par"], x, y, cls, got,
                                                      cands, tab))
        if abs(vals[1] - vals[0]) > tol:
            raise Fail("probe.polarity", "{} at +V gives {!r}, at -V {!r}".format(
                case["par"], vals[0], vals[1]))
        seen.add(cls)
        stats.cls("query:" + cls)
    stats.cls("kind:{}.{}".format(case["kind"], case["par"]))
    if len(tab["vi"]) >= 2 and len(tab["io"]) >= 3 and len(seen) >= 3:
        stats.nontriv(jhash(tab), sample={"kind": case["kind"], "par": case["par"],
                                          "table": tab})


def body_constant(case, stats):
    """A table whose entries all equal c gives the same solve() result as the constant c."""
    if not case["ok"]:
        return
    tab, zkey = S.clone(case["table"]), case["zkey"]
    c = tab[zkey][0][0]
    tab[zkey] = [[c for _ in r] for r in tab[zkey]]
    ys = sorted(abs(v) for v in tab["vi"])
    V = ys[0] * (0.5 + 1.5 * case["fr"][0]) if ys[0] > 0 else 1.0
    I = max(abs(v) for v in tab["io"]) * (0.2 + 1.5 * case["fr"][1])
    ct = dict(case)
    ct["table"] = tab
    sa = probe_spec(ct, V, I)
    sb = S.clone(sa)
    S.node_map(sb)["X"]["params"][case["par"]] = c
    try:
        da, db = B.solve(B.build(sa)), B.solve(B.build(sb))
    except (ValueError, RuntimeError):
        stats.cls("probe_not_solved")
        return
    pmax = max([abs(x) for x in da["Power (W)"].tolist() if isinstance(x, float)] + [1e-300])
    for ra, rb in zip(da.to_dict("records"), db.to_dict("records")):
        for col in ra:
            # (Loss = P*(1-eff): absolute tolerance relative to the power, eff = 1-1e-16 exists)
            if not cell_eq(ra[col], rb[col], rel=1e-9, abs_=1e-12 * pmax):
                raise Fail("constant.differs",
                           "all-{} table vs constant: row {!r} column {!r}: {!r} vs {!r}".format(
                               c, ra["Component"], col, ra[col], rb[col]))
    stats.cls("kind:{}.{}".format(case["kind"], case["par"]))
    stats.nontriv(jhash([tab, V, I]), sample={"kind": case["kind"], "table": tab, "V": V, "I": I})


def streams(tier, avoid):
    return [
        Stream("direct", body_direct, strategy=tables(), n={"quick": 1500, "thorough": 12000}),
        Stream("probe", body_probe, strategy=tables(), n={"quick": 150, "thorough": 1500}),
        Stream("constant", body_constant, strategy=tables(), n={"quick": 150, "thorough": 1200}),
    ]
