"""C13 - a component loaded from a TOML file equals the constructor call."""

import copy
import os
import tempfile
import warnings

from hypothesis import strategies as st

from vlib import build as B
from vlib import spec as S
from vlib.props import c11
from vlib.runner import Fail, Stream, jhash
from vlib.table import frames_equal, _plain

ID = "C13"
LEVEL = "exploration"
RULE = (
    "Per kind, constructor kwargs P in TOML-representable form (floats/ints of either sign, "
    "float arrays, nested tables for interpolation data, PMux rs lists, any subset of the "
    "optional keys, optional [limits] table with any subset of keys) are written with "
    "toml.dumps to a temporary file. Kind.from_file(name, fname=f) and Kind(name, **P, "
    "limits=L) are each placed in the same probe system (Source - component - loads, with an "
    "on/off/idle phase set so that sleep values matter): identical params(limits=True) and "
    "identical solve() tables are required. Negative stream (10 kinds with the generic "
    "loader + LinReg for the missing key): a mandatory key removed => KeyError; a value of "
    "the wrong TOML type (string, bool, array for a number, int where only float is "
    "allowed, number for the bool) => ValueError. LinReg: 'ig' and deprecated 'iq' "
    "spellings. Non-trivial: an optional key absent and another present with a non-default "
    "value; distinct by (kind, kwargs)."
)
ASSUMPTIONS = [
    "mandatory keys are the constructor parameters not documented as optional (Rectifier: "
    "vdrop; PSwitch and PMux: none)",
    "TOML arrays are written homogeneous (all floats)",
    "inline tables only for 1-row interpolation data (limitation of the toml package's parser)",
]

SECTION = {k: k.lower() for k in S.KINDS}
MANDATORY = {"Source": ["vo"], "PLoad": ["pwr"], "ILoad": ["ii"], "RLoad": ["rs"],
             "RLoss": ["rs"], "VLoss": ["vdrop"], "Converter": ["vo", "eff"],
             "LinReg": ["vo"], "PSwitch": [], "PMux": [], "Rectifier": ["vdrop"]}
# types the generic loader documents per parameter (number = int|float)
FLOAT_ONLY = {("Converter", "eff")}


def floatify(v):
    if isinstance(v, bool):
        return v
    if isinstance(v, list):
        return [floatify(x) for x in v]
    if isinstance(v, dict):
        return {k: floatify(x) for k, x in v.items()}
    if isinstance(v, int):
        return float(v)
    return v


@st.composite
def cases(draw):
    kind = draw(st.sampled_from(S.KINDS))
    kw = draw(c11.valid_kwargs(kind))
    lim = kw.pop("limits", None)
    # arrays homogeneous floats; scalars keep int/float except float-only parameters
    for k, v in list(kw.items()):
        if isinstance(v, (list, dict)):
            kw[k] = floatify(v)
        elif (kind, k) in FLOAT_ONLY:
            kw[k] = float(v)
    if kind == "Rectifier" and "vdrop" not in kw:
        kw["vdrop"] = 0.0
    if kind == "PMux" and draw(st.integers(0, 9)) == 4:
        kw["rs"] = []  # an empty list is a list
    if lim is not None:
        lim = floatify(lim)
    spelling = "ig"
    if kind == "LinReg" and "ig" in kw:
        r = draw(st.integers(0, 5))
        if r in (0, 1):
            spelling = "iq"
        elif r == 2:
            # a half-migrated file: the deprecated key still present with its default 0
            kw["iq"] = draw(st.sampled_from([0.0, 0]))
    # (the third-party toml package cannot parse an inline table whose value array has
    # several rows - TomlDecodeError before sysloss sees anything - so only 1-row tables
    # are written inline)
    inline = any(isinstance(v, dict) for v in kw.values()) and all(
        len(v["vi"]) == 1 for v in kw.values() if isinstance(v, dict)) and draw(st.booleans())
    return {"kind": kind, "kw": kw, "limits": lim, "spelling": spelling, "inline": inline}


def write_toml(path, kind, kw, limits, spelling="ig", inline=False):
    """inline: interpolation data written as TOML inline tables
    (`eff = {vi = [...], io = [...], eff = [[...]]}`) instead of `[kind.eff]` sub-tables."""
    import json
    import toml

    sec = copy.deepcopy(kw)
    if spelling == "iq" and "ig" in sec:
        v = sec.pop("ig")
        if isinstance(v, dict):
            v = dict(v)
            v["iq"] = v.pop("ig")
        sec["iq"] = v
    if not inline:
        doc = {SECTION[kind]: sec}
        if limits is not None:
            doc["limits"] = limits
        text = toml.dumps(doc)
    else:
        tables = {k: v for k, v in sec.items() if isinstance(v, dict)}
        plain = {k: v for k, v in sec.items() if not isinstance(v, dict)}
        text = toml.dumps({SECTION[kind]: plain})
        if not text.strip():
            text = "[{}]\n".format(SECTION[kind])
        for k, v in tables.items():
            text += "{} = {{ {} }}\n".format(
                k, ", ".join("{} = {}".format(a, json.dumps(b)) for a, b in v.items()))
        if limits is not None:
            text += toml.dumps({"limits": limits})
    with open(path, "w") as f:
        f.write(text)


def load(kind, path):
    import sysloss.components as C

    with warnings.catch_warnings():
        warnings.simplefilter("ignore")
        return getattr(C, kind).from_file("X", fname=path)


def in_probe(kind, comp, kw):
    """Place an already built component into the probe system of C11."""
    from sysloss.system import System
    import sysloss.components as C

    spec = c11.probe(kind, kw)
    nodes = spec["nodes"]
    sys = None
    with warnings.catch_warnings():
        warnings.simplefilter("ignore")
        for n in nodes:
            c = comp if n["name"] == "X" else B.make_comp(n)
            if n["kind"] == "Source":
                sys = System("probe", c)
            else:
                sys.add_comp(n["parents"][0], comp=c)
        B.apply_phases(sys, spec)
    return sys


def body(case, stats):
    kind, kw, lim, sp = case["kind"], case["kw"], case["limits"], case["spelling"]
    with tempfile.TemporaryDirectory(prefix="vc13_") as d:
        path = os.path.join(d, "comp.toml")
        write_toml(path, kind, kw, lim, sp, case.get("inline", False))
        if case.get("inline"):
            stats.cls("inline_table")
        try:
            a = load(kind, path)
        except Exception as e:
            raise Fail("load.exception.{}.{}".format(kind, type(e).__name__),
                       "{}.from_file on\n{}\nraised {}: {}".format(
                           kind, open(path).read(), type(e).__name__, e))
    ckw = copy.deepcopy(kw)
    if lim is not None:
        ckw["limits"] = copy.deepcopy(lim)
    b = c11.construct(kind, ckw)
    pk = {k: v for k, v in kw.items()}
    sa, sb = in_probe(kind, a, pk), in_probe(kind, b, pk)
    pa, pb = sa.params(limits=True), sb.params(limits=True)
    d = frames_equal(pa, pb)
    if d:
        raise Fail("params.differs." + kind,
                   "{} from TOML {} (limits {}) vs constructor: params(limits=True) differs: "
                   "{}".format(kind, kw, lim, d))
    try:
        da = B.solve(sa)
    except (ValueError, RuntimeError) as e:
        try:
            B.solve(sb)
        except type(e):
            stats.cls("probe_not_solved")
            return
        raise Fail("solve.outcome." + kind, "TOML-loaded component: solve() raised {} but "
                   "the constructed one solves".format(e))
    db = B.solve(sb)
    d = frames_equal(da, db)
    if d:
        raise Fail("solve.differs." + kind,
                   "{} from TOML {} vs constructor: solve() differs: {}".format(kind, kw, d))
    stats.cls("kind:" + kind)
    if any(isinstance(v, dict) for v in kw.values()):
        stats.cls("table_parameter")
    if sp == "iq":
        stats.cls("linreg_deprecated_iq")
    if lim:
        stats.cls("limits_table")
    optional = {
        "Source": ["rs"], "PLoad": ["pwrs", "rt", "loss"], "ILoad": ["iis", "rt", "loss"],
        "RLoad": ["rt", "loss"], "RLoss": ["rt"], "VLoss": ["rt"],
        "Converter": ["iq", "iis", "rt"], "LinReg": ["vdrop", "ig", "iis", "rt"],
        "PSwitch": ["rs", "ig", "iis", "rt"], "PMux": ["rs", "ig", "iis", "rt"],
        "Rectifier": ["rs", "ig", "iq", "rt"]}[kind]
    absent = [k for k in optional if k not in kw]
    present = [k for k in optional if k in kw and kw[k] not in (0.0, False)]
    if absent and present:
        stats.nontriv(jhash([kind, kw, lim]), sample={"kind": kind, "kwargs": kw,
                                                      "limits": lim})


WRONG = ["string", "bool", "array", "int_for_float", "number_for_bool"]


@st.composite
def bad_cases(draw):
    kind = draw(st.sampled_from(S.KINDS))
    c = draw(cases().filter(lambda x: x["kind"] == kind)) if False else None
    kw = draw(c11.valid_kwargs(kind))
    kw.pop("limits", None)
    for k, v in list(kw.items()):
        if isinstance(v, (list, dict)):
            kw[k] = floatify(v)
        elif (kind, k) in FLOAT_ONLY:
            kw[k] = float(v)
    if kind == "Rectifier" and "vdrop" not in kw:
        kw["vdrop"] = 0.0
    mode = draw(st.sampled_from(["missing", "wrong", "wrong"]))
    if mode == "missing":
        if not MANDATORY[kind]:
            mode = "wrong"
        else:
            key = draw(st.sampled_from(MANDATORY[kind]))
            kw.pop(key)
            return {"kind": kind, "kw": kw, "mode": "missing", "key": key, "how": None}
    keys = sorted(kw)
    if kind == "LinReg" or not keys:
        # LinReg has its own loader without a type gate: only the missing-key clause applies
        if MANDATORY[kind]:
            key = MANDATORY[kind][0]
            kw.pop(key)
            return {"kind": kind, "kw": kw, "mode": "missing", "key": key, "how": None}
        return {"kind": kind, "kw": kw, "mode": "none", "key": None, "how": None}
    key = keys[draw(st.integers(0, len(keys) - 1))]
    how = draw(st.sampled_from(WRONG))
    v = kw[key]
    if key == "loss":
        how = "number_for_bool"
        kw[key] = draw(st.sampled_from([0, 1, 1.0, "true"]))
    elif how == "string":
        kw[key] = draw(st.sampled_from(["1.0", "abc", ""]))
    elif how == "bool":
        kw[key] = draw(st.booleans())
    elif how == "array":
        if isinstance(v, list) or (kind in ("PMux", "Rectifier") and key == "rs"):
            kw[key] = "0.1, 0.2"
            how = "string"
        else:
            kw[key] = [1.0, 2.0]
    elif how == "int_for_float":
        if (kind, key) in FLOAT_ONLY:
            kw[key] = 1
        else:
            kw[key] = "x"
            how = "string"
    else:
        kw[key] = "yes"
        how = "string"
    return {"kind": kind, "kw": kw, "mode": "wrong", "key": key, "how": how}


def body_bad(case, stats):
    kind, kw, mode = case["kind"], case["kw"], case["mode"]
    if mode == "none":
        return
    with tempfile.TemporaryDirectory(prefix="vc13_") as d:
        path = os.path.join(d, "comp.toml")
        write_toml(path, kind, kw, None)
        text = open(path).read()
        try:
            load(kind, path)
            outcome = "accepted"
        except KeyError:
            outcome = "KeyError"
        except ValueError:
            outcome = "ValueError"
        except Exception as e:  # noqa
            outcome = type(e).__name__
    want = "KeyError" if mode == "missing" else "ValueError"
    stats.cls("{}:{}:{}".format(mode, case["how"] or case["key"], outcome))
    if outcome != want:
        raise Fail("bad.{}.{}".format(mode, outcome),
                   "{}.from_file with {} key {!r} [{}] -> {} (expected {}); file:\n{}".format(
                       kind, mode, case["key"], case["how"], outcome, want, text))
    stats.nontriv(jhash([kind, kw, mode]), sample={"kind": kind, "toml": text,
                                                   "outcome": outcome})


def streams(tier, avoid):
    return [
        Stream("equal", body, strategy=cases(), n={"quick": 900, "thorough": 8000}),
        Stream("rejects", body_bad, strategy=bad_cases(), n={"quick": 600, "thorough": 5000}),
    ]
