"""C05 - a PMux feeds from exactly the first live input, and is reported so."""

from hypothesis import strategies as st

from vlib import build as B
from vlib import gen as G
from vlib import refmodel as R
from vlib import rowcheck as RC
from vlib import spec as S
from vlib.props.c01 import solve_or_skip
from vlib.runner import Fail, Stream, jhash
from vlib.table import Table

ID = "C05"
LEVEL = "exploration"
RULE = (
    "Dedicated mux generator: k = 1..4 declared inputs, each reached through its own chain "
    "(source or source - 0..2 of RLoss/VLoss/PSwitch/LinReg/Converter); chains share sources "
    "or hang below another input in 'entangled' mode. In 'independent' mode the system gets "
    "one load phase per live/dead pattern of the inputs, so ALL 2^k patterns are solved in "
    "one call (dead by phase-inactive source or by phase-inactive switch/regulator/"
    "converter above the input, or statically by a 0 V source); scalar or per-input rs; a "
    "subtree of 1..4 nodes below the mux; with and without rail names. Oracle per phase: "
    "selected input = first live one by the spec; mux row Vin/Parent|Rail in/Domain name "
    "that input, Vout and Iin follow the law with rs[selected], every input's Iout counts "
    "the mux current iff it is the selected one; no live input => mux and subtree all zero. "
    "Non-trivial: k >= 2, a dead input before the selected one, mux carrying current; "
    "distinct by (spec hash, phase)."
)
ASSUMPTIONS = [
    "I11: 1..4 declared inputs (class docstring)",
    "liveness expected from the spec by the dead-rail rule of C04",
    "Domain column exists only with >= 2 sources; skipped (counted) otherwise",
    "when no input is live the Parent/Rail-in label of the mux is unspecified and not checked",
]

CHAIN_KINDS = ["RLoss", "VLoss", "PSwitch", "LinReg", "Converter"]
KILLABLE = ("Source", "PSwitch", "LinReg", "Converter")


@st.composite
def mux_systems(draw, avoid=()):
    g = G._Gen(draw, G.Opts(f_max=0.06, tables=True, avoid=avoid,
                         similar_sources=draw(st.integers(0, 3)) > 0))
    k = draw(st.integers(1, 4))
    entangled = draw(st.integers(0, 3)) == 0
    nodes = []
    idx = [0]

    def add(kind, parents):
        n = g._blank(kind, idx[0], parents)
        idx[0] += 1
        nodes.append(n)
        return n

    inputs = []
    killers = []  # per input: name of the node whose inactivity kills exactly this input
    srcs = []
    for j in range(k):
        share = srcs and draw(st.integers(0, 2)) == 0
        if share:
            top = srcs[draw(st.integers(0, len(srcs) - 1))]
        elif entangled and inputs and draw(st.integers(0, 1)) == 0:
            top = inputs[draw(st.integers(0, len(inputs) - 1))]
        else:
            top = add("Source", [])["name"]
            srcs.append(top)
        clen = draw(st.integers(0, 2))
        cur = top
        kill = top if (top in srcs and not share) else None
        for _ in range(clen):
            kind = draw(st.sampled_from(CHAIN_KINDS))
            cur = add(kind, [cur])["name"]
            if kind in KILLABLE:
                kill = cur
        if (share or top not in srcs) and kill is None:
            cur = add("PSwitch", [cur])["name"]
            kill = cur
        if cur in inputs:
            cur = add("RLoss", [cur])["name"]
        inputs.append(cur)
        killers.append(kill)
    mux = add("PMux", list(inputs))
    below = [mux["name"]]
    for _ in range(draw(st.integers(1, 4))):
        par = below[draw(st.integers(0, len(below) - 1))]
        kind = draw(st.sampled_from(["PLoad", "ILoad", "RLoad", "RLoss", "LinReg", "Converter",
                                     "PSwitch", "VLoss"]))
        n = add(kind, [par])
        if kind not in S.LOADS:
            below.append(n["name"])
    # leaf loads so that current flows
    spec0 = {"nodes": nodes}
    ch = S.children_map(spec0)
    for n in list(nodes):
        if n["kind"] not in S.LOADS and not ch[n["name"]] and n["name"] in below:
            add(draw(st.sampled_from(["PLoad", "ILoad", "RLoad"])), [n["name"]])
    # some extra loads on the inputs themselves (non-mux children of an input)
    for inp in inputs:
        if draw(st.integers(0, 2)) == 0:
            add(draw(st.sampled_from(["PLoad", "ILoad", "RLoad"])), [inp])
    # nodes must be ordered parents-first: they are, by construction
    spec = {"name": "Mux sys", "phases": {}, "nodes": nodes}
    g.nodes = nodes
    g.o.phases = False
    g._nominal(spec)
    # an input that is live by its flags but outputs exactly 0 V: a regulator whose dropout
    # voltage exceeds its input, or a converter set to 0 V
    for n in nodes:
        if n["name"] in inputs or any(n["name"] in S.descendants(spec, i_) for i_ in []):
            if n["kind"] == "LinReg" and draw(st.integers(0, 5)) == 4:
                vin0 = abs(spec["_nominal"]["vin"][n["name"]])
                n["params"]["vo"] = 3.0 * vin0
                n["params"]["vdrop"] = 1.5 * vin0
            elif n["kind"] == "Converter" and draw(st.integers(0, 7)) == 4:
                n["params"]["vo"] = 0.0
    # mux rs: scalar / list (also negative entries: magnitudes)
    # (already drawn by _nominal; flip the sign of list entries sometimes)
    rs = mux["params"].get("rs")
    if isinstance(rs, list) and draw(st.integers(0, 3)) == 0:
        mux["params"]["rs"] = [-x for x in rs]
    # live/dead patterns
    if not entangled and all(kl is not None for kl in killers) and len(set(killers)) == k:
        static_dead = set()
        for j in range(k):
            if killers[j] in srcs and draw(st.integers(0, 7)) == 0:
                static_dead.add(j)
                S.node_map(spec)[killers[j]]["params"]["vo"] = 0.0
        npat = 2 ** k
        spec["phases"] = {"pat{:0{w}b}".format(m, w=k): draw(G.logf(0.1, 100.0))
                          for m in range(npat)}
        nmap = S.node_map(spec)
        for j in range(k):
            if j in static_dead:
                continue
            alive = [ph for m, ph in enumerate(spec["phases"]) if not (m >> j) & 1]
            nmap[killers[j]]["pconf"] = alive
        spec["_mode"] = "independent"
    else:
        names = ["p{}".format(i) for i in range(draw(st.integers(2, 6)))]
        spec["phases"] = {nm: draw(G.logf(0.1, 100.0)) for nm in names}
        for n in nodes:
            if n["kind"] in KILLABLE and draw(st.integers(0, 2)) > 0:
                mask = draw(st.integers(1, 2 ** len(names) - 1))
                n["pconf"] = [nm for i, nm in enumerate(names) if mask >> i & 1]
            if n["kind"] == "Source" and draw(st.integers(0, 9)) == 0:
                n["params"]["vo"] = 0.0
        spec["_mode"] = "entangled"
    # the mux itself is sometimes inactive in a phase
    if draw(st.integers(0, 4)) == 0:
        names = list(spec["phases"])
        mask = draw(st.integers(1, 2 ** min(len(names), 8) - 1))
        mux["pconf"] = [nm for i, nm in enumerate(names) if (mask >> (i % 8)) & 1]
    # rails
    if draw(st.integers(0, 1)) == 1:
        for i, n in enumerate(nodes):
            if n["kind"] not in S.LOADS and draw(st.integers(0, 3)) > 0:
                n["rail"] = "rail_{}".format(i)
        if draw(st.integers(0, 1)) == 1:
            nmap = S.node_map(spec)
            for n in nodes:
                n["pref"] = ["rail" if nmap[p]["rail"] and draw(st.booleans()) else "name"
                             for p in n["parents"]]
    return spec


def body_renamed(case, stats):
    """The priority order of the inputs survives renaming an input / changing its rail
    through change_comp (same parameters)."""
    spec, picks = S.clone(case["spec"]), case["picks"]
    sys = B.build(spec)
    mux = [n for n in spec["nodes"] if n["kind"] == "PMux"][0]
    nm = S.node_map(spec)
    import warnings
    for j, (which, rename, newrail) in enumerate(picks):
        old = mux["parents"][which % len(mux["parents"])]
        node = nm[old]
        if not rename and not newrail and node["parents"] and node["kind"] != "Source":
            # delete this input but keep its children: its parent takes its place among the
            # inputs (merging with it when the parent is an input already)
            par = node["parents"][0]
            with warnings.catch_warnings():
                warnings.simplefilter("ignore")
                sys.del_comp(old, del_childs=False)
            spec["nodes"] = [n for n in spec["nodes"] if n["name"] != old]
            for n in spec["nodes"]:
                if old in n["parents"]:
                    seq = [par if p == old else p for p in n["parents"]]
                    if n["kind"] == "PMux":
                        keep = [i for i, p in enumerate(seq) if p not in seq[:i]]
                        rsl = n["params"].get("rs")
                        if isinstance(rsl, list):
                            # the per-input resistances stay with their positions
                            pass
                        n["parents"] = [seq[i] for i in keep]
                    else:
                        n["parents"] = seq
                    n["pref"] = ["name"] * len(n["parents"])
            mux = [n for n in spec["nodes"] if n["kind"] == "PMux"][0]
            nm = S.node_map(spec)
            stats.cls("deleted_input_children_kept")
            continue
        new = dict(node)
        if rename:
            new["name"] = "{} r{}".format(old, j)
        # (a renamed component cannot keep its own rail name: change_comp treats it as taken)
        newrail = newrail or (rename and bool(node["rail"]))
        new["rail"] = "rail_new{}".format(j) if newrail else node["rail"]
        with warnings.catch_warnings():
            warnings.simplefilter("ignore")
            sys.change_comp(old, comp=B.make_comp(new), group=node["group"], rail=new["rail"])
            if node.get("pconf") is not None:
                sys.set_comp_phases(new["name"], node["pconf"])
        node["name"], node["rail"] = new["name"], new["rail"]
        for n in spec["nodes"]:
            n["parents"] = [new["name"] if p == old else p for p in n["parents"]]
        nm = S.node_map(spec)
        stats.cls("renamed_input" if rename else "rail_changed_input")
    body(spec, stats, sys=sys)


def body(spec, stats, sys=None):
    sys = sys or B.build(spec)
    try:
        df = solve_or_skip(sys, stats)
    except Exception as e:
        if type(e).__name__ in ("Skip",):
            raise
        raise Fail("solve.exception." + type(e).__name__, "solve() raised {}: {}".format(
            type(e).__name__, e))
    tab = Table(df)
    nm = S.node_map(spec)
    ch = S.children_map(spec)
    mux = [n for n in spec["nodes"] if n["kind"] == "PMux"][0]
    k = len(mux["parents"])
    stats.cls("inputs={}".format(k))
    stats.cls("mode:" + spec.get("_mode", "?"))
    rails = any(n["rail"] for n in spec["nodes"])
    stats.cls("rails" if rails else "no_rails")
    has_domain = "Domain" in tab.cols
    if isinstance(mux["params"].get("rs"), list):
        stats.cls("rs_list")
    for ph in spec["phases"]:
        vin_of = lambda name, ph=ph: tab.by[(ph, name)]["Vin (V)"]  # noqa: E731
        powered, out, selm = R.live_map(spec, ph, vin_of)
        dom = R.domain_map(spec, ph, vin_of)
        sel = selm[mux["name"]]
        r = tab.by[(ph, mux["name"])]
        # generic consistency of every row (laws with the reported selection) ...
        rsel = RC.check_rows(spec, tab, ph, 1e-6, 1e-6)
        # ... and the reported selection must be the spec's first live input
        if rsel[mux["name"]] != sel:
            raise Fail("selection",
                       "phase {!r}: inputs {} live {} -> expected input #{} but the table "
                       "shows input #{} live first".format(
                           ph, mux["parents"], [out[p] for p in mux["parents"]], sel,
                           rsel[mux["name"]]))
        if sel is None:
            stats.cls("pattern:no_live_input")
            for name in [mux["name"]] + S.descendants(spec, mux["name"]):
                rr = tab.by[(ph, name)]
                for c in ("Vin (V)", "Vout (V)", "Iin (A)", "Iout (A)", "Power (W)", "Loss (W)"):
                    if rr[c] != 0.0:
                        raise Fail("dead_mux.nonzero",
                                   "phase {!r}: no live input but {!r} has {} = {!r}".format(
                                       ph, name, c, rr[c]))
            continue
        stats.cls("pattern:selected={}".format(sel))
        sname = mux["parents"][sel]
        srow = tab.by[(ph, sname)]
        if r["Vin (V)"] != srow["Vout (V)"]:
            raise Fail("mux.vin", "phase {!r}: mux Vin {!r} but selected input {!r} outputs "
                       "{!r}".format(ph, r["Vin (V)"], sname, srow["Vout (V)"]))
        label = r[tab.parent_col]
        want = nm[sname]["rail"] if tab.parent_col == "Rail in" else sname
        if label != want:
            raise Fail("mux.parent_label",
                       "phase {!r}: mux row {} = {!r}, selected input is {!r} (expected "
                       "{!r}); declared inputs {}".format(
                           ph, tab.parent_col, label, sname, want, mux["parents"]))
        if has_domain:
            if r["Domain"] != dom[sname]:
                raise Fail("mux.domain",
                           "phase {!r}: mux Domain {!r}, selected input {!r} is powered by "
                           "{!r}".format(ph, r["Domain"], sname, dom[sname]))
        else:
            stats.cls("domain_column_absent")
        # each input sees the mux current iff selected
        for j, pn in enumerate(mux["parents"]):
            prow = tab.by[(ph, pn)]
            others = sum(tab.by[(ph, c)]["Iin (A)"] for c in ch[pn]
                         if nm[c]["kind"] != "PMux")
            want_io = others + (r["Iin (A)"] if j == sel else 0.0)
            tol = 1e-11 * max(abs(want_io), abs(r["Iin (A)"])) + (
                3 * (1e-8 + 1e-6 * abs(want_io)) if nm[pn]["kind"] == "Source" else 0.0)
            if abs(prow["Iout (A)"] - want_io) > tol:
                raise Fail("input.current",
                           "phase {!r}: input #{} {!r} (selected #{}) Iout {!r}, expected "
                           "{!r} (own children {!r}, mux Iin {!r})".format(
                               ph, j, pn, sel, prow["Iout (A)"], want_io, others,
                               r["Iin (A)"]))
        carrying = r["Iout (A)"] > 0
        if k >= 2 and sel > 0 and carrying:
            stats.nontriv(jhash([spec["nodes"], ph]),
                          sample={"phase": ph, "selected": sel, **S.summarize(spec)})
    stats.cls("solved")


def _merge_cases():
    """Inputs S (source), R (child of S) and X (another source) in every declaration order;
    R is then deleted keeping its children, so that S and R merge into one input; S alive or
    dead (0 V / phase-inactive); X at a different voltage.  (exhaustive axis)"""
    import itertools
    from vlib.props.c03 import _spec2

    out = []
    for order in itertools.permutations(["S", "R", "X"]):
        for sdead in ("alive", "zero", "phase"):
            for rs in ("scalar", "list"):
                nodes = [("S", "Source", [], {"vo": 0.0 if sdead == "zero" else 12.0}),
                         ("X", "Source", [], {"vo": 5.0}),
                         ("R", "RLoss", ["S"], {"rs": 0.1}),
                         ("Mux", "PMux", list(order),
                          {"rs": 0.05 if rs == "scalar" else [0.05, 0.06, 0.07]}),
                         ("L", "ILoad", ["Mux"], {"ii": 0.2}),
                         ("LR", "ILoad", ["R"], {"ii": 0.1})]
                spec = _spec2(nodes)
                spec["phases"] = {"a": 1.0, "b": 2.0}
                if sdead == "phase":
                    spec["nodes"][0]["pconf"] = ["b"]
                out.append({"spec": spec, "picks": [[list(order).index("R"), False, False]]})
    return out


def _alias_cases():
    """A mux declared with the same component twice - once by name, once by its rail - plus
    another input, in every order; first component alive or dead.  (exhaustive axis)"""
    import itertools
    out = []
    for order in set(itertools.permutations(["S0", "rail:S0", "S1"])):
        for v0 in (0.0, 12.0):
            out.append({"order": list(order), "v0": v0})
    return sorted(out, key=lambda c_: (c_["order"], c_["v0"]))


def body_alias(case, stats):
    import warnings
    from sysloss.components import ILoad, PMux, Source
    from sysloss.system import System
    from vlib.props.c03 import _spec2

    refs = ["R0" if x == "rail:S0" else x for x in case["order"]]
    with warnings.catch_warnings():
        warnings.simplefilter("ignore")
        sys = System("alias", Source("S0", vo=case["v0"]), rail="R0")
        sys.add_source(Source("S1", vo=5.0))
        try:
            sys.add_comp(refs, comp=PMux("M", rs=0.1))
        except ValueError:
            stats.cls("alias_parents_rejected")
            stats.nontriv(jhash(case), sample=case)
            return
        sys.add_comp("M", comp=ILoad("L", ii=0.1))
        sys.set_sys_phases({"a": 1.0, "b": 2.0})
    distinct = list(dict.fromkeys("S0" if x == "rail:S0" else x for x in case["order"]))
    spec = _spec2([("S0", "Source", [], {"vo": case["v0"]}), ("S1", "Source", [], {"vo": 5.0}),
                   ("M", "PMux", distinct, {"rs": 0.1}), ("L", "ILoad", ["M"], {"ii": 0.1})])
    spec["nodes"][0]["rail"] = "R0"
    spec["phases"] = {"a": 1.0, "b": 2.0}
    try:
        body(spec, stats, sys=sys)
    except Fail as f:
        raise Fail("alias." + f.sig, "mux declared with inputs {}: {}".format(refs, f.msg))
    stats.cls("alias_parents_accepted")
    stats.nontriv(jhash(case), sample=case)


def streams(tier, avoid):
    ren = st.fixed_dictionaries({
        "spec": mux_systems(avoid),
        "picks": st.lists(st.tuples(st.integers(0, 3), st.booleans(), st.booleans()).map(list),
                          min_size=1, max_size=3)})
    return [Stream("mux", body, strategy=mux_systems(avoid),
                   n={"quick": 350, "thorough": 2500}, reduce=S.reductions),
            Stream("renamed_inputs", body_renamed, strategy=ren,
                   n={"quick": 120, "thorough": 1000}),
            Stream("merged_inputs", body_renamed, cases=_merge_cases()),
            Stream("alias_inputs", body_alias, cases=_alias_cases())]
