"""C01 - solved table obeys every component's documented electrical law."""

from vlib import build as B
from vlib import gen as G
from vlib import refmodel as R
from vlib import rowcheck as RC
from vlib import spec as S
from vlib.runner import Fail, Skip, Stream, jhash
from vlib.table import Table

ID = "C01"
LEVEL = "exploration"
RULE = (
    "Hypothesis builds power trees by construction around a nominal operating point "
    "(1-3 sources, up to 10 (quick) / 16 (thorough) further nodes of all 11 kinds, at most "
    "one PMux with 1-4 inputs, constant and 1-D/2-D tabulated parameters, both polarities, "
    "every series element dropping <= 10 % of its nominal input). Stream 'laws': every row "
    "of solve() is checked against the neighbouring rows and the reference transfer law. "
    "Stream 'mirror': all sources negated => passive chains mirrored, everything else "
    "unchanged. Non-trivial: solved, depth >= 2, a series element carrying current, and a "
    "converter/regulator with a load below it; distinct by spec hash."
)
ASSUMPTIONS = [
    "reference laws in vlib/refmodel.py transcribe the class docstrings / property text",
    "residual tolerance 3*(1e-8 + tol*|x|) as bounded by solve()'s own convergence test",
    "inside a 2-D table cell either triangulation of the cell is accepted",
    "generator bounds: names without ':'; regulated outputs non-zero; Rectifier rs scalar",
]


def classify(spec, stats, tab=None, phase=""):
    d = S.depth_map(spec)
    stats.cls("depth={}".format(min(max(d.values()), 6)))
    stats.cls("sources={}".format(len(S.sources(spec))))
    kinds = {n["kind"] for n in spec["nodes"]}
    if "PMux" in kinds:
        stats.cls("has_mux")
    if any(S.has_table(n) for n in spec["nodes"]):
        stats.cls("has_table")
        if any(len(v["vi"]) > 1 for n in spec["nodes"] for v in n["params"].values()
               if isinstance(v, dict)):
            stats.cls("has_table_2d")
    if any(n["kind"] == "Source" and n["params"]["vo"] < 0 for n in spec["nodes"]):
        stats.cls("negative_source")
    if any(n["kind"] in ("Converter", "LinReg") and n["params"]["vo"] < 0
           for n in spec["nodes"]):
        stats.cls("negative_regulator")


def nontrivial(spec, tab, phase=""):
    d = S.depth_map(spec)
    if max(d.values()) < 2:
        return False
    ch = S.children_map(spec)
    nm = S.node_map(spec)
    series = False
    for n in spec["nodes"]:
        if n["kind"] in ("RLoss", "VLoss", "PSwitch", "PMux", "Rectifier"):
            r = tab.by[(phase, n["name"])]
            if r["Iout (A)"] > 0 and abs(r["Vin (V)"]) > abs(r["Vout (V)"]):
                series = True
        if n["kind"] == "Source" and n["params"].get("rs", 0.0):
            if tab.by[(phase, n["name"])]["Iout (A)"] > 0:
                series = True
    reg = False
    for n in spec["nodes"]:
        if n["kind"] in ("Converter", "LinReg"):
            if any(nm[c]["kind"] in S.LOADS for c in S.descendants(spec, n["name"])):
                if tab.by[(phase, n["name"])]["Iout (A)"] > 0:
                    reg = True
    return series and reg


def table_use(spec, tab, stats, phase=""):
    """Where do operating points fall in the tables (measured, for the evidence)?"""
    for n in spec["nodes"]:
        for key, v in n["params"].items():
            if isinstance(v, dict):
                r = tab.by[(phase, n["name"])]
                if r["Vin (V)"] == 0.0:
                    continue
                where = R.table_eval(v, key, r["Iout (A)"], r["Vin (V)"])[1]
                stats.cls("table_point:" + where)


def solve_or_skip(sys, stats, **kw):
    try:
        return B.solve(sys, **kw)
    except (ValueError, RuntimeError) as e:
        stats.cls("not_solved:" + type(e).__name__)
        raise Skip("not_solved")


def body_laws(spec, stats):
    classify(spec, stats)
    for k, v in spec.get("_gen", {}).get("excluded", {}).items():
        stats.excluded[k] += v
    sys = B.build(spec)
    df = solve_or_skip(sys, stats)
    tab = Table(df)
    RC.check_finite(tab)
    RC.check_rows(spec, tab, "", 1e-6, 1e-6)
    stats.cls("solved")
    table_use(spec, tab, stats)
    if nontrivial(spec, tab):
        stats.nontriv(jhash(spec["nodes"]), sample=S.summarize(spec))


def body_laws_phases(spec, stats):
    """The same row check for every phase of a system with load phases."""
    classify(spec, stats)
    for k, v in spec.get("_gen", {}).get("excluded", {}).items():
        stats.excluded[k] += v
    sys = B.build(spec)
    tab = Table(solve_or_skip(sys, stats))
    phases = list(spec["phases"]) or [""]
    nt = False
    for ph in phases:
        RC.check_rows(spec, tab, ph, 1e-6, 1e-6)
        nt = nt or nontrivial(spec, tab, ph)
    stats.cls("solved")
    if nt:
        stats.nontriv(jhash([spec["nodes"], spec["phases"]]), sample=S.summarize(spec))


def mirrored(spec):
    m = S.clone(spec)
    for n in m["nodes"]:
        if n["kind"] == "Source":
            n["params"]["vo"] = -n["params"]["vo"]
    return m


def body_mirror(spec, stats):
    classify(spec, stats)
    for k, v in spec.get("_gen", {}).get("excluded", {}).items():
        stats.excluded[k] += v
    ta = Table(solve_or_skip(B.build(spec), stats))
    tb = Table(solve_or_skip(B.build(mirrored(spec)), stats))
    sel = {n["name"]: RC.selected_input(n, ta, "") for n in spec["nodes"]
           if n["kind"] == "PMux"}
    passive = {}
    for n in spec["nodes"]:
        k = n["kind"]
        if k == "Source":
            passive[n["name"]] = True
        elif k in ("RLoss", "VLoss", "PSwitch"):
            passive[n["name"]] = passive[n["parents"][0]]
        elif k == "PMux":
            s = sel[n["name"]]
            passive[n["name"]] = passive[n["parents"][s]] if s is not None else True
        elif k in S.LOADS:
            passive[n["name"]] = passive[n["parents"][0]]
        else:
            passive[n["name"]] = False
    tol = 3e-5
    for n in spec["nodes"]:
        a, b = ta.by[("", n["name"])], tb.by[("", n["name"])]
        for c in ("Iin (A)", "Iout (A)", "Power (W)", "Loss (W)"):
            if abs(a[c] - b[c]) > tol * max(abs(a[c]), abs(b[c])) + 1e-7:
                raise Fail("mirror." + c.split()[0].lower() + "." + n["kind"],
                           "{!r}: {} {!r} vs mirrored {!r}".format(n["name"], c, a[c], b[c]))
        # input voltage: mirrored iff the feeding chain is passive
        feeder_passive = True if n["kind"] == "Source" else (
            passive[n["parents"][sel[n["name"]] or 0]] if n["kind"] == "PMux"
            else passive[n["parents"][0]])
        for c, mir in (("Vin (V)", feeder_passive),
                       ("Vout (V)", passive[n["name"]] and n["kind"] not in S.LOADS)):
            want = -a[c] if mir else a[c]
            if abs(b[c] - want) > tol * abs(want) + 1e-7:
                raise Fail("mirror." + c.split()[0].lower() + "." + n["kind"],
                           "{!r}: {} {!r}, mirrored system {!r}, expected {!r}".format(
                               n["name"], c, a[c], b[c], want))
    stats.cls("solved")
    if nontrivial(spec, ta):
        stats.nontriv(jhash(spec["nodes"]), sample=S.summarize(spec))


def streams(tier, avoid):
    big = tier == "thorough"
    # (0 V sources included: they make a PMux fall back to a later input)
    o1 = G.Opts(max_nodes=16 if big else 10, f_max=0.10, avoid=avoid, zero_source=True,
                neg_axes=True)
    o2 = G.Opts(max_nodes=12 if big else 8, f_max=0.10, avoid=avoid,
                source_rs="F1" not in avoid)
    return [
        Stream("laws", body_laws, strategy=G.systems(o1),
               n={"quick": 1200, "thorough": 8000}, reduce=S.reductions),
        Stream("laws_phases", body_laws_phases,
               strategy=G.systems(G.Opts(max_nodes=12 if big else 8, phases=True, avoid=avoid,
                                         zero_source=True, odd_phase_conf=True)),
               n={"quick": 300, "thorough": 2500}, reduce=S.reductions),
        Stream("mirror", body_mirror, strategy=G.systems(o2),
               n={"quick": 400, "thorough": 3000}, reduce=S.reductions),
    ]


def _probe_f1():
    """Known finding F1: a negative Source with rs > 0 *adds* the resistive drop."""
    from vlib.runner import Stats
    spec = {"name": "probe", "phases": {}, "nodes": [
        {"name": "Vneg", "kind": "Source", "params": {"vo": -12.0, "rs": 1.0}, "limits": None,
         "parents": [], "pref": [], "group": "", "rail": "", "pconf": None},
        {"name": "Load", "kind": "ILoad", "params": {"ii": 1.0}, "limits": None,
         "parents": ["Vneg"], "pref": ["name"], "group": "", "rail": "", "pconf": None}]}
    try:
        body_laws(spec, Stats())
    except Fail as f:
        if f.sig == "law.vout.Source":
            return "Source(vo=-12, rs=1) feeding 1 A reports Vout -13 V (mirror of +12 V is -11 V)"
        raise
    return None


PROBES = {"F1": _probe_f1}
