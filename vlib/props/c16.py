"""C16 - results depend on the final structure only, not on the edit history."""

from vlib import machine as M
from vlib.runner import Stream

ID = "C16"
LEVEL = "exploration"
RULE = (
    "The edit-history state machine of C14 with a model of the documented effect of every "
    "accepted call (add; replace + reset phase configuration + group/rail from the call; "
    "delete subtree; delete node and re-attach its children to its parent keeping a mux's "
    "input position). After a drawn subset of the accepted steps (about 40 % in the quick tier, "
    "60 % in thorough; never inside a delete + re-add 'move' pair; always at the end): solve, rail_rep, params, limits, phases, tree, save and make_diag succeed "
    "(solve may raise ValueError/RuntimeError if the rebuilt system does too), each lists "
    "exactly the model's components, and a system built from scratch from the model - in "
    "canonical order and in a second, permuted order - returns the same solve()/rail_rep() "
    "(1e-9), params(limits=True), limits(), phases(), tree() paths and save() document; the "
    "C07 aggregate oracle runs on the edited system's solve(). Non-trivial: a rename, a "
    "delete (with or without children) or an edit at a mux input followed by at least one "
    "more accepted edit; distinct by history hash."
)
ASSUMPTIONS = [
    "deleting without its children a mux input whose parent is already another input of the "
    "same mux has no documented effect: from then on only 'reports succeed and list the "
    "components' is required for that history",
    "the model in vlib/machine.py is my reading of the change_comp / del_comp docstrings",
]


def body(ops, stats):
    M.replay_ops(ops, {"C16"}, stats, 1)


def streams(tier, avoid):
    every = 3 if tier == "quick" else 1
    return [Stream("histories", body, machine=M.make_machine({"C16"}, tier, every),
                   n={"quick": 90, "thorough": 200}, steps={"quick": 20, "thorough": 30},
                   reduce=M.reduce_ops, shrink=(tier == "thorough"))]
