"""C17 - analyses are read-only; batt_life restores the battery even on failure."""

import copy
import os
import tempfile
import warnings

from hypothesis import strategies as st

from vlib import build as B
from vlib import gen as G
from vlib import machine as M
from vlib import spec as S
from vlib.runner import Fail, Stream, jhash
from vlib.table import frames_equal, _plain

ID = "C17"
LEVEL = "fault_enumeration"
RULE = (
    "Stream 'interleave': a generated system (tables, groups, rails, limits, with/without "
    "phases) and a drawn sequence of 3-15 analysis calls out of solve (with a tags dict), "
    "rail_rep, params, limits, phases, tree, save, plot_interp, make_diag, make_hdiag (with a "
    "configuration dict, DOT output) and batt_life (terminating battery model). A snapshot "
    "(tree text, params(limits=True), phases(), save document, solve table, registries, "
    "graph, every component's parameters) taken before must equal the snapshot after every "
    "call; every solve() table must equal the first cell for cell; every object passed in "
    "must deep-equal its copy. Stream 'batt_faults' (fault enumeration): for a terminating "
    "battery model with n callback calls, batt_life is run with an exception injected at "
    "call k for EVERY k = 0..n-1 (five exception types, two of them BaseException-only), and with the battery state making "
    "the solver fail at step k, and with the deplete callback returning a non-finite capacity at "
    "step k; afterwards - returned or raised - params() must show the "
    "battery's original vo and rs and the snapshot must be unchanged (the battery is named "
    "by component name or by its rail name). Stream 'interleaved_edits': a generated edit "
    "history is run twice, once with analysis calls inserted between the edits at drawn "
    "positions and once without; the two final systems must give identical reports (an "
    "analysis leaves no hidden state that a later edit could expose). Non-trivial: "
    "interleave: >= 4 distinct analyses incl. a diagram and batt_life; batt_faults: every k "
    "enumerated; distinct by (spec hash, call sequence / model)."
)
ASSUMPTIONS = [
    "diagram output is requested as '*.raw' (DOT source, no rendering) except plot-free "
    "checks; matplotlib runs with the Agg backend",
    "the snapshot reads private registries in addition to the public reports",
]
EXHAUSTIVE = True

CALLS = ["solve", "solve_phase", "rail_rep", "params", "limits", "phases", "tree", "save",
         "plot_interp", "make_diag", "make_hdiag", "batt_life"]


class Injected(Exception):
    pass


def battery_model(c0, v0, r0, steps, fail_at=None, exc=None, bad_state_at=None,
                  nonfinite_at=None, nonfinite=float("nan")):
    """Scripted, terminating battery: capacity falls linearly to 0 in `steps` deplete calls;
    voltage sags 10 %.  fail_at: index of the callback call (0 = probe) that raises `exc`;
    bad_state_at: deplete call after which the battery reports a huge resistance."""
    st_ = {"calls": 0, "k": 0}

    def check():
        i = st_["calls"]
        st_["calls"] += 1
        if fail_at is not None and i == fail_at:
            raise exc("injected at callback call {}".format(i))

    def state():
        k = st_["k"]
        cap = c0 * max(0.0, 1.0 - k / steps)
        rs = r0
        if bad_state_at is not None and k >= bad_state_at:
            rs = 1e9
        if nonfinite_at is not None and k == nonfinite_at:
            cap = nonfinite
        return (cap, v0 * (1.0 - 0.1 * k / steps), rs)

    def pfunc():
        check()
        return state()

    def dfunc(t, i):
        check()
        st_["k"] += 1
        return state()

    return pfunc, dfunc, st_


def source_row(sys, name):
    df = sys.params()
    for r in df.to_dict("records"):
        r = _plain(r)
        if r["Component"] == name:
            return r["vo (V)"], r["rs (Ohm)"]
    raise Fail("params.missing", "no params() row for {!r}".format(name))


def do_call(sys, spec, call, arg, tmp):
    """Perform one analysis; returns list of (label, passed object, pristine copy)."""
    from sysloss.diagram import get_conf, make_diag, make_hdiag
    import matplotlib.pyplot as plt

    passed = []
    names = [n["name"] for n in spec["nodes"]]
    with warnings.catch_warnings():
        warnings.simplefilter("ignore")
        if call == "solve":
            tags = {"Tag": arg, "rev": "A"}
            passed.append(("tags", tags, copy.deepcopy(tags)))
            try:
                return passed, sys.solve(tags=tags).drop(columns=["Tag", "rev"])
            except (ValueError, RuntimeError):
                return passed, None
        if call == "solve_phase":
            ph = list(spec["phases"])
            try:
                sys.solve(phase=ph[arg % len(ph)] if ph else "", energy=True, ta=40.0)
            except (ValueError, RuntimeError):
                pass
        elif call == "rail_rep":
            try:
                sys.rail_rep()
            except (ValueError, RuntimeError):
                pass
        elif call == "params":
            sys.params(limits=bool(arg % 2))
        elif call == "limits":
            sys.limits()
        elif call == "phases":
            sys.phases()
        elif call == "tree":
            M.capture(lambda: sys.tree(names[arg % len(names)] if arg % 3 == 0 else ""))
        elif call == "save":
            sys.save(os.path.join(tmp, "s{}.json".format(arg)), indent=arg % 5)
        elif call == "plot_interp":
            tn = [n["name"] for n in spec["nodes"] if S.has_table(n)] or names
            M.capture(lambda: sys.plot_interp(tn[arg % len(tn)], plot3d=bool(arg % 2)))
            plt.close("all")
        elif call in ("make_diag", "make_hdiag"):
            conf = get_conf()
            conf["node"]["Source"] = {"fillcolor": "coral"}
            conf["node"][names[arg % len(names)]] = {"shape": "ellipse"}
            conf["graph"]["rankdir"] = ["TB", "LR", "BT", "RL"][arg % 4]
            cfg = conf if arg % 3 else {}
            grouped = any(n["group"] for n in spec["nodes"])
            if cfg and arg % 5 == 1 and (not grouped or not arg % 2):
                del cfg["cluster"]  # a configuration without cluster section (no clusters drawn)
            passed.append(("config", cfg, copy.deepcopy(cfg)))
            fn = make_diag if call == "make_diag" else make_hdiag
            try:
                fn(sys, fname=os.path.join(tmp, "d{}.raw".format(arg)), group=bool(arg % 2),
                   config=cfg)
            except (ValueError, RuntimeError):
                pass
        elif call == "batt_life":
            src = S.sources(spec)
            batt = src[arg % len(src)]
            vo = S.node_map(spec)[batt]["params"]["vo"]
            if S.node_map(spec)[batt]["rail"] and arg % 2:
                batt = S.node_map(spec)[batt]["rail"]  # a source may be named by its rail
            pf, df, _s = battery_model(0.05, vo if vo != 0 else 3.7, 0.01, 3 + arg % 4)
            tags = {"run": arg}
            passed.append(("tags", tags, copy.deepcopy(tags)))
            try:
                sys.batt_life(batt, cutoff=-1e9 if vo < 0 else 0.1 * abs(vo), pfunc=pf,
                              dfunc=df, tags=tags)
            except (ValueError, RuntimeError):
                pass
    return passed, None


def body_interleave(case, stats):
    spec, calls = case["spec"], case["calls"]
    sys = B.build(spec)
    base = M.snapshot(sys)
    first = None
    used = set()
    with tempfile.TemporaryDirectory(prefix="vc17_") as tmp:
        for i, (call, arg) in enumerate(calls):
            if call == "solve_phase" and not spec["phases"]:
                call = "solve"
            try:
                passed, table = do_call(sys, spec, call, arg, tmp)
            except Exception as e:
                raise Fail("analysis_raises.{}.{}".format(call, type(e).__name__),
                           "{}() raised {}: {}".format(call, type(e).__name__, e))
            used.add(call)
            stats.cls("call:" + call)
            for label, obj, pristine in passed:
                if obj != pristine:
                    raise Fail("argument_mutated." + call,
                               "{}() changed the {} passed to it: {} -> {}".format(
                                   call, label, M.short(pristine), M.short(obj)))
            if table is not None:
                if first is None:
                    first = table
                else:
                    d = frames_equal(first, table)
                    if d:
                        raise Fail("solve_not_repeatable",
                                   "solve() #{} after {} differs from the first: {}".format(
                                       i, [c for c, _a in calls[:i]], d))
            now = M.snapshot(sys)
            d = M.snap_diff(base, now)
            if d:
                raise Fail("analysis_changed_system.{}.{}".format(call, d[0]),
                           "{}() changed the system: {} was {} and is now {} (calls so far "
                           "{})".format(call, d[0], M.short(d[1]), M.short(d[2]),
                                        [c for c, _a in calls[:i + 1]]))
    if len(used) >= 4 and used & {"make_diag", "make_hdiag"} and "batt_life" in used:
        stats.nontriv(jhash([spec["nodes"], spec["phases"], calls]),
                      sample={"calls": calls, **S.summarize(spec)})


class Cancelled(BaseException):
    """not an Exception subclass (like KeyboardInterrupt or asyncio.CancelledError)"""


EXC = {"Injected": Injected, "KeyError": KeyError, "ZeroDivisionError": ZeroDivisionError,
       "KeyboardInterrupt": KeyboardInterrupt, "Cancelled": Cancelled}


def body_batt(case, stats):
    spec, steps, excname, bi = case["spec"], case["steps"], case["exc"], case["battery"]
    src = S.sources(spec)
    batt = src[bi % len(src)]
    node = S.node_map(spec)[batt]
    battname = batt
    if node["rail"] and case.get("by_rail"):
        batt = node["rail"]  # batt_life accepts the rail name of the source
    vo = node["params"]["vo"]
    if vo == 0.0:
        vo = 3.7
    vbat = abs(vo) * 0.9 if vo > 0 else vo * 0.9
    sys = B.build(spec)
    base = M.snapshot(sys)
    orig = source_row(sys, battname)
    cutoff = 0.1 * abs(vo) if vo > 0 else -1e9
    # a clean run first: how many callback calls does the model receive?
    pf, df, st_ = battery_model(0.02, vbat, 0.05, steps)
    try:
        with warnings.catch_warnings():
            warnings.simplefilter("ignore")
            sys.batt_life(batt, cutoff=cutoff, pfunc=pf, dfunc=df)
        n = st_["calls"]
        clean = "returned"
    except (ValueError, RuntimeError) as e:
        n = st_["calls"]
        clean = type(e).__name__
    stats.cls("clean_run:" + clean)

    def after(what):
        got = source_row(sys, battname)
        if got != orig:
            raise Fail("battery_not_restored." + what.split(" ")[0],
                       "after batt_life ({}) the battery {!r} shows vo={!r}, rs={!r}; before "
                       "the call vo={!r}, rs={!r}".format(what, batt, got[0], got[1], orig[0],
                                                          orig[1]))
        d = M.snap_diff(base, M.snapshot(sys))
        if d:
            raise Fail("batt_life_changed_system." + d[0],
                       "after batt_life ({}): {} was {} and is now {}".format(
                           what, d[0], M.short(d[1]), M.short(d[2])))

    after("clean run, " + clean)
    if n < 2:
        stats.cls("too_few_callbacks")
        return
    for k in range(n):
        pf, df, st_ = battery_model(0.02, vbat, 0.05, steps, fail_at=k, exc=EXC[excname])
        try:
            with warnings.catch_warnings():
                warnings.simplefilter("ignore")
                sys.batt_life(batt, cutoff=cutoff, pfunc=pf, dfunc=df)
            raise Fail("injected_exception_swallowed", "callback call {} raised {} but "
                       "batt_life returned".format(k, excname))
        except EXC[excname]:
            pass
        after("callback exception at call {} of {}".format(k, n))
        stats.cls("fault:callback_exception")
    # solver failure: the battery reports an absurd resistance from deplete call k on
    for k in range(0, max(1, n - 1)):
        pf, df, st_ = battery_model(0.02, vbat, 0.05, steps, bad_state_at=k)
        try:
            with warnings.catch_warnings():
                warnings.simplefilter("ignore")
                sys.batt_life(batt, cutoff=cutoff, pfunc=pf, dfunc=df)
            stats.cls("fault:solver_survived")
        except (ValueError, RuntimeError):
            stats.cls("fault:solver_failed")
        after("solver failure from deplete call {}".format(k))
    # the deplete callback *returns* a non-finite capacity at step k (batt_life may raise)
    for k in range(1, max(2, n)):
        for bad in (float("nan"), float("inf"), float("-inf")):
            pf, df, st_ = battery_model(0.02, vbat, 0.05, steps, nonfinite_at=k, nonfinite=bad)
            try:
                with warnings.catch_warnings():
                    warnings.simplefilter("ignore")
                    sys.batt_life(batt, cutoff=cutoff, pfunc=pf, dfunc=df)
            except Exception:
                stats.cls("fault:nonfinite_state_raised")
            else:
                stats.cls("fault:nonfinite_state_returned")
            after("non-finite capacity {} returned by deplete call {}".format(bad, k))
    stats.cls("callback_calls={}".format(min(n, 12)))
    stats.nontriv(jhash([spec["nodes"], spec["phases"], steps, excname, bi]),
                  sample={"battery": batt, "model_steps": steps, "exception": excname,
                          "callback_calls_enumerated": n, **S.summarize(spec)})


ANALYSES = ["solve", "rail_rep", "params", "limits", "phases", "tree", "save", "make_diag",
            "make_hdiag", "plot_interp"]


@st.composite
def edit_cases(draw):
    from vlib.props.c12 import histories
    ops = draw(histories())
    n = len(ops)
    marks = draw(st.lists(st.tuples(st.integers(1, max(1, n - 1)), st.sampled_from(ANALYSES),
                                    st.integers(0, 30)).map(list), min_size=1, max_size=14))
    return {"ops": ops, "marks": marks}


def body_edits(case, stats):
    """Analysis calls made between edits leave no trace: the same edit history with and
    without interleaved analyses ends in systems with identical reports."""
    from vlib.runner import Stats

    ops, marks = case["ops"], case["marks"]
    plain = M.replay_ops(ops, set(), Stats())
    d = M.Driver(set(), Stats())
    first = ops[0]
    d.start(first["comp"], first["group"], first["rail"], first.get("warn_error", False))
    with tempfile.TemporaryDirectory(prefix="vc17_") as tmp:
        for i, op in enumerate(ops[1:], start=1):
            for (pos, call, arg) in marks:
                if pos == i:
                    spec_now = {"name": "Sys", "phases": d.model["phases"],
                                "nodes": M.topo_nodes(d.model)}
                    try:
                        do_call(d.sys, spec_now, call, arg, tmp)
                    except (ValueError, RuntimeError):
                        pass
                    except Exception as e:
                        raise Fail("interleave.analysis_raises." + type(e).__name__,
                                   "{}() between the edits raised {}: {} (history so far {}, "
                                   "analyses at {})".format(
                                       call, type(e).__name__, e,
                                       [M.op_text(o) for o in ops[:i]][-5:], marks))
                    stats.cls("interleaved:" + call)
            if d.step(op) == "abort":
                break
    if not plain.in_sync() or not d.in_sync():
        stats.cls("history_out_of_model")
        return
    ra = M.run_reports(d.sys)
    try:
        M.compare_with_rebuilt(ra, d.model, plain.sys, "the same edit history without the "
                               "interleaved analysis calls", pre="interleave.")
    except Fail as f:
        raise Fail(f.sig, f.msg + " | analyses at " + str(marks) + " | history " + str(
            [M.op_text(o) for o in ops][-6:]))
    stats.cls("histories_compared")
    if len(ops) >= 6 and len(marks) >= 2:
        stats.nontriv(jhash([ops, marks]), sample={"marks": marks,
                                                   "history": [M.op_text(o) for o in ops][:10]})


def _reduce_i(case):
    for i in range(len(case["calls"])):
        if len(case["calls"]) > 1:
            yield {**case, "calls": case["calls"][:i] + case["calls"][i + 1:]}
    for c in S.reductions(case["spec"]):
        yield {**case, "spec": c}


def _reduce_b(case):
    for c in S.reductions(case["spec"]):
        yield {**case, "spec": c}


def streams(tier, avoid):
    big = tier == "thorough"
    mn = 10 if big else 7
    common = dict(max_nodes=mn, min_nodes=2, limits=True, groups=True, rails=True,
                  avoid=avoid, f_max=0.05)
    one = st.tuples(st.sampled_from(CALLS), st.integers(0, 30)).map(list)

    @st.composite
    def call_seq(draw):
        seq = draw(st.lists(one, min_size=2, max_size=12))
        # most sequences contain a battery run and a diagram (the non-trivial class)
        if draw(st.integers(0, 4)) > 0:
            seq.insert(draw(st.integers(0, len(seq))), ["batt_life", draw(st.integers(0, 30))])
            seq.insert(draw(st.integers(0, len(seq))),
                       [draw(st.sampled_from(["make_diag", "make_hdiag"])),
                        draw(st.integers(0, 30))])
        return seq

    calls = call_seq()
    inter = st.fixed_dictionaries({
        "spec": st.one_of(G.systems(G.Opts(**common)), G.systems(G.Opts(phases=True, **common))),
        "calls": calls})
    batt = st.fixed_dictionaries({
        "spec": st.one_of(G.systems(G.Opts(**common)), G.systems(G.Opts(phases=True, **common))),
        "steps": st.integers(2, 9), "exc": st.sampled_from(sorted(EXC)),
        "battery": st.integers(0, 5), "by_rail": st.booleans()})
    return [
        Stream("interleave", body_interleave, strategy=inter,
               n={"quick": 70, "thorough": 500}, reduce=_reduce_i),
        Stream("batt_faults", body_batt, strategy=batt, n={"quick": 20, "thorough": 150},
               reduce=_reduce_b),
        Stream("interleaved_edits", body_edits, strategy=edit_cases(),
               n={"quick": 220, "thorough": 1500}),
    ]
