"""C14 - the tree stays well-formed under any sequence of edits."""

from vlib import machine as M
from vlib.runner import Stream

ID = "C14"
LEVEL = "exploration"
RULE = (
    "Model-based state machine (Hypothesis RuleBasedStateMachine): histories of up to 25 "
    "(quick) / 40 (thorough) calls of add_source, add_comp (parent by name / by rail / list "
    "for a mux; fresh, colliding and rail-colliding names; all kinds incl. a second mux, a "
    "Source as child, children under loads), change_comp (same/new/colliding name and rail, "
    "same or other kind, load onto a node with children, Source<->other, PMux<->other, target "
    "by name or rail), del_comp (both del_childs; leaf, inner node, mux, mux input, source, "
    "last source; by name, by rail, unknown), set_sys_phases, set_comp_phases, with arguments "
    "drawn from the current model so that valid calls and collisions are both frequent. After "
    "every step - accepted or rejected - the real system must satisfy: names unique, rails "
    "unique, names and rails disjoint, registries consistent, roots = Sources, loads "
    "childless, only the mux has several parents, at most one mux, every link of a type "
    "add_comp accepts; the save() document lists exactly the components. Non-trivial: a "
    "history with an accepted rename/delete, at least one rejected call and >= 2 accepted "
    "edits; distinct by history hash. Stream 'small_scope' (bounded exhaustive): EVERY "
    "sequence of up to 4 (quick) / 5 (thorough) calls, starting from a two-source system, "
    "over a fixed alphabet of 10 calls (delete either source, two different muxes, an element with a rail, a "
    "load addressed through the rail, replacements by a mux / by a load / by a colliding "
    "name and rail, deletion keeping children), the invariant checked after every call."
)
ASSUMPTIONS = [
    "structural facts are read from the system's graph and registries (private attributes) "
    "and cross-checked against the public save() document",
]


def body(ops, stats):
    M.replay_ops(ops, {"C14"}, stats)


# ---- small scope: every sequence of up to 4 calls over a fixed alphabet of 10 calls -----------
def _c(name, kind, **params):
    return {"name": name, "kind": kind, "params": params, "limits": None}


ALPHABET = [
    {"op": "del_comp", "target": "S1", "del_childs": True},
    {"op": "del_comp", "target": "Src0", "del_childs": True},
    {"op": "add_comp", "parent": ["S1"], "comp": _c("M1", "PMux"), "group": "", "rail": ""},
    {"op": "add_comp", "parent": ["S1"], "comp": _c("M2", "PMux", rs=0.1), "group": "",
     "rail": ""},
    {"op": "add_comp", "parent": "Src0", "comp": _c("R1", "RLoss", rs=0.1), "group": "",
     "rail": "railR"},
    {"op": "add_comp", "parent": "S1", "comp": _c("R2", "RLoss", rs=0.2), "group": "",
     "rail": ""},
    {"op": "change_comp", "target": "R2", "comp": _c("R2", "PMux"), "group": "", "rail": ""},
    {"op": "change_comp", "target": "R1", "comp": _c("L1b", "PLoad", pwr=0.1), "group": "",
     "rail": "railR"},
    {"op": "del_comp", "target": "R1", "del_childs": False},
    {"op": "add_comp", "parent": "railR", "comp": _c("L1", "ILoad", ii=0.01), "group": "",
     "rail": ""},
]
PREFIX = [{"op": "add_source", "comp": _c("S1", "Source", vo=5.0), "group": "", "rail": "",
           "cls": []}]


def _small_scope_cases(maxlen):
    import itertools

    init = {"op": "init", "comp": _c("Src0", "Source", vo=12.0), "group": "", "rail": ""}
    out = []
    for n in range(1, maxlen + 1):
        for seq in itertools.product(range(len(ALPHABET)), repeat=n):
            out.append(list(seq))
    return init, out


def body_small(seq, stats):
    init = {"op": "init", "comp": _c("Src0", "Source", vo=12.0), "group": "", "rail": "",
            "warn_error": False}
    ops = [init] + PREFIX + [dict(ALPHABET[i], cls=[]) for i in seq]
    from vlib.runner import Stats
    tmp = Stats()
    d = M.replay_ops(ops, {"C14"}, tmp)
    stats.classes.update(tmp.classes)
    if d.steps_ok >= 2 and d.rejected >= 1:
        stats.nontriv("".join(str(i) for i in seq),
                      sample=[M.op_text(o) for o in ops] if len(seq) == 4 else None)


def streams(tier, avoid):
    _init, seqs = _small_scope_cases(4 if tier == "quick" else 5)
    return [Stream("small_scope", body_small, cases=seqs),
            Stream("histories", body, machine=M.make_machine({"C14"}, tier),
                   n={"quick": 250, "thorough": 1200}, steps={"quick": 25, "thorough": 40},
                   reduce=M.reduce_ops, shrink=(tier == "thorough"))]
