"""C14 - the tree stays well-formed under any sequence of edits."""

from vlib import machine as M
from vlib.runner import Stream

ID = "C14"
LEVEL = "exploration"
RULE = (
    "Model-based state machine (Hypothesis RuleBasedStateMachine): histories of up to 25 "
    "(quick) / 40 (thorough) calls of add_source, add_comp (parent by name / by rail / list "
    "for a mux; fresh, colliding and rail-colliding names; all kinds incl. a second mux, a "
    "Source as child, children under loads), change_comp (same/new/colliding name and rail, "
    "same or other kind, load onto a node with children, Source<->other, PMux<->other, target "
    "by name or rail), del_comp (both del_childs; leaf, inner node, mux, mux input, source, "
    "last source; by name, by rail, unknown), set_sys_phases, set_comp_phases, with arguments "
    "drawn from the current model so that valid calls and collisions are both frequent. After "
    "every step - accepted or rejected - the real system must satisfy: names unique, rails "
    "unique, names and rails disjoint, registries consistent, roots = Sources, loads "
    "childless, only the mux has several parents, at most one mux, every link of a type "
    "add_comp accepts; the save() document lists exactly the components. Non-trivial: a "
    "history with an accepted rename/delete, at least one rejected call and >= 2 accepted "
    "edits; distinct by history hash."
)
ASSUMPTIONS = [
    "structural facts are read from the system's graph and registries (private attributes) "
    "and cross-checked against the public save() document",
]


def body(ops, stats):
    M.replay_ops(ops, {"C14"}, stats)


def streams(tier, avoid):
    return [Stream("histories", body, machine=M.make_machine({"C14"}, tier),
                   n={"quick": 250, "thorough": 2000}, steps={"quick": 25, "thorough": 40},
                   reduce=M.reduce_ops, shrink=(tier == "thorough"))]
