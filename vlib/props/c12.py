"""C12 - save() / System.from_file() round-trips the whole system."""

import json
import os
import tempfile
import warnings

from hypothesis import strategies as st

from vlib import build as B
from vlib import gen as G
from vlib import spec as S
from vlib.props.c01 import classify
from vlib.runner import Fail, Stream, jhash
from vlib.table import keyed_equal, _plain

ID = "C12"
LEVEL = "exploration"
RULE = (
    "Full-feature systems: all 11 kinds, scalar/table/list parameter forms (PMux rs list, "
    "both rectifier modes, loss flags, sleep currents, thermal resistances), limits on any "
    "keys, groups, rails (parents addressed by rail or name), 1-3 sources, PMux, load phases "
    "with component phase configurations; saved with indent in {0,1,4,None}. Oracle: S' = "
    "from_file(save(S)) gives the same solve(energy=True), rail_rep(), params(limits=True) "
    "(applicable limits) and phases() keyed by component/phase (1e-9 relative), the same "
    "PMux input order, and save(S') is the same JSON document as save(S) up to the order of "
    "siblings. Version gate: the file with its version bumped (patch / minor / major / pre-release of the next patch / post-release of this one) must be "
    "refused with ValueError, equal or lower versions load. Non-trivial: >= 5 kinds, a "
    "table, a non-default limit and (a mux or >= 2 sources); distinct by spec hash."
)
ASSUMPTIONS = [
    "limits on keys not applicable to the kind are not saved (the property says 'applicable "
    "limits'): the limits columns are compared on applicable keys only",
    "component names exclude 'system' (top-level key of the file) - generator bound I8",
    "two systems with the same structure converge to the same values within 1e-9 relative",
]


def canon_doc(doc):
    """Save document with sibling order removed."""
    out = {}
    for k, v in doc.items():
        if k == "system":
            out[k] = v
            continue
        e = dict(v)
        ch = {}
        for p, lst in v.get("childs", {}).items():
            ch[p] = sorted(lst, key=lambda c: c["params"]["name"])
        e["childs"] = ch
        out[k] = e
    return out


def reports(sys, spec, stats, tag):
    rep = {}
    with warnings.catch_warnings():
        warnings.simplefilter("ignore")
        try:
            rep["solve"] = sys.solve(energy=True)
            rep["rail_rep"] = sys.rail_rep()
        except (ValueError, RuntimeError) as e:
            rep["solve_exc"] = type(e).__name__
        rep["params"] = sys.params(limits=True)
        rep["phases"] = sys.phases()
    return rep


def compare_reports(ra, rb, spec, sig):
    if ("solve_exc" in ra) != ("solve_exc" in rb):
        raise Fail(sig + ".solve_outcome", "original {} / reloaded {}".format(
            ra.get("solve_exc", "solved"), rb.get("solve_exc", "solved")))
    if "solve" in ra:
        keys = ["Component"] + (["Phase"] if "Phase" in ra["solve"].columns else [])
        d = keyed_equal(ra["solve"], rb["solve"], keys, rel=1e-9, abs_=1e-12)
        if d:
            raise Fail(sig + ".solve", "solve() differs after reload: " + d)
        a, b = ra["rail_rep"], rb["rail_rep"]
        if (a is None) != (b is None):
            raise Fail(sig + ".rail_rep", "rail_rep() None vs frame")
        if a is not None:
            if "Rail" in a.columns:
                keys = ["Rail"] + (["Phase"] if "Phase" in a.columns else [])
                # warning texts are joined from a set: compare as token sets
                a2, b2 = a.copy(), b.copy()
                for fr in (a2, b2):
                    fr["Warnings"] = [" ".join(sorted(set(
                        str(w).replace(",", " ").split()))) for w in fr["Warnings"]]
                d = keyed_equal(a2, b2, keys, rel=1e-9, abs_=1e-12)
            else:
                keys = ["Component"] + (["Phase"] if "Phase" in a.columns else [])
                d = keyed_equal(a, b, keys, rel=1e-9, abs_=1e-12)
            if d:
                raise Fail(sig + ".rail_rep", "rail_rep() differs after reload: " + d)
    # params(limits=True): limits on applicable keys only
    pa, pb = ra["params"], rb["params"]
    nm = S.node_map(spec)
    rows_a = {_plain(r)["Component"]: _plain(r) for r in pa.to_dict("records")}
    rows_b = {_plain(r)["Component"]: _plain(r) for r in pb.to_dict("records")}
    if sorted(rows_a) != sorted(rows_b):
        raise Fail(sig + ".params.rows", "components {} vs {}".format(
            sorted(rows_a), sorted(rows_b)))
    if list(pa.columns) != list(pb.columns):
        raise Fail(sig + ".params.columns", "{} vs {}".format(list(pa.columns),
                                                              list(pb.columns)))
    for name, x in rows_a.items():
        y = rows_b[name]
        kind = nm[name]["kind"]
        for c in x:
            key = c.split(" ")[0]
            if " limit " in c and key not in S.APPLICABLE[kind]:
                continue
            if x[c] != y[c]:
                raise Fail(sig + ".params." + key,
                           "{!r} ({}): params() column {!r}: {!r} before, {!r} after "
                           "reload".format(name, kind, c, x[c], y[c]))
    fa, fb = ra["phases"], rb["phases"]
    if (fa is None) != (fb is None):
        raise Fail(sig + ".phases", "phases() None vs frame")
    if fa is not None:
        d = keyed_equal(fa, fb, ["Component", "Active phase"])
        if d:
            raise Fail(sig + ".phases", "phases() differs after reload: " + d)


def bump(ver, which):
    from packaging import version as V

    v = V.parse(ver)
    rel = list(v.release) + [0, 0, 0]
    if which == "patch":
        rel = [rel[0], rel[1], rel[2] + 1]
    elif which == "minor":
        rel = [rel[0], rel[1] + 1, 0]
    elif which == "major":
        rel = [rel[0] + 1, 0, 0]
    elif which == "lower":
        rel = [rel[0], max(rel[1] - 1, 0), 0] if rel[1] > 0 else [max(rel[0] - 1, 0), 0, 0]
    elif which == "rc_next":
        return "{}.{}.{}rc1".format(rel[0], rel[1], rel[2] + 1)  # pre-release of a newer one
    elif which == "post":
        return "{}.{}.{}.post1".format(rel[0], rel[1], rel[2])  # post-release: newer
    elif which == "rc_same":
        return "{}.{}.{}rc1".format(rel[0], rel[1], rel[2])  # pre-release of this one: older
    else:
        rel = rel[:3]
    return ".".join(str(x) for x in rel[:3])


def body(case, stats):
    from sysloss.system import System

    spec, indent, vb = case["spec"], case["indent"], case["version"]
    classify(spec, stats)
    for k, v in spec.get("_gen", {}).get("excluded", {}).items():
        stats.excluded[k] += v
    sys = B.build(spec)
    with tempfile.TemporaryDirectory(prefix="vc12_") as d:
        f1, f2, f3 = (os.path.join(d, n) for n in ("a.json", "b.json", "c.json"))
        with warnings.catch_warnings():
            warnings.simplefilter("ignore")
            try:
                sys.save(f1, indent=indent)
            except Exception as e:
                raise Fail("save.exception." + type(e).__name__,
                           "save() raised {}: {}".format(type(e).__name__, e))
            doc1 = json.load(open(f1))
            try:
                sys2 = System.from_file(f1)
            except Exception as e:
                raise Fail("reload.exception." + type(e).__name__,
                           "from_file(save(S)) raised {}: {}".format(type(e).__name__, e))
            sys2.save(f2, indent=indent)
            doc2 = json.load(open(f2))
        ra, rb = reports(sys, spec, stats, "orig"), reports(sys2, spec, stats, "reload")
        compare_reports(ra, rb, spec, "roundtrip")
        # mux input order
        for n in spec["nodes"]:
            if n["kind"] == "PMux":
                for doc, what in ((doc1, "saved"), (doc2, "re-saved")):
                    if doc[n["name"]]["parents"] != n["parents"]:
                        raise Fail("mux.input_order", "{} file lists mux inputs {} but they "
                                   "were declared {}".format(what, doc[n["name"]]["parents"],
                                                             n["parents"]))
        c1, c2 = canon_doc(doc1), canon_doc(doc2)
        if c1 != c2:
            diff = [k for k in set(c1) | set(c2) if c1.get(k) != c2.get(k)]
            detail = ""
            for k in diff[:2]:
                detail += " [{}: {} -> {}]".format(k, json.dumps(c1.get(k))[:400],
                                                   json.dumps(c2.get(k))[:400])
            raise Fail("fixed_point", "save(from_file(save(S))) differs from save(S) in "
                       "{}:{}".format(sorted(diff), detail))
        # version gate
        import sysloss
        doc = json.load(open(f1))
        doc["system"]["version"] = bump(sysloss.__version__, vb)
        json.dump(doc, open(f3, "w"))
        try:
            with warnings.catch_warnings():
                warnings.simplefilter("ignore")
                System.from_file(f3)
            loaded = True
        except ValueError:
            loaded = False
        except Exception as e:
            raise Fail("version.exception", "version {} -> {}: {}".format(
                doc["system"]["version"], type(e).__name__, e))
        newer = vb in ("patch", "minor", "major", "rc_next", "post")
        if loaded == newer:
            raise Fail("version.gate", "file version {} ({} than {}) was {}".format(
                doc["system"]["version"], "newer" if newer else "not newer",
                sysloss.__version__, "loaded" if loaded else "refused"))
    stats.cls("solved" if "solve" in ra else "not_solved_both")
    kinds = {n["kind"] for n in spec["nodes"]}
    for k in kinds:
        stats.cls("kind:" + k)
    if any(S.rect_mode(n) == "diode" for n in spec["nodes"] if n["kind"] == "Rectifier"):
        stats.cls("rectifier_diode")
    nondef = any(n.get("limits") for n in spec["nodes"])
    if (len(kinds) >= 5 and any(S.has_table(n) for n in spec["nodes"]) and nondef
            and ("PMux" in kinds or len(S.sources(spec)) >= 2)):
        stats.nontriv(jhash([spec["nodes"], spec["phases"]]), sample=S.summarize(spec))


@st.composite
def histories(draw):
    """An edit history (list of concrete operations) generated against the real system so
    that later operations refer to components that exist."""
    from vlib import machine as M
    from vlib.runner import Stats

    d = M.Driver(set(), Stats())
    comp = {"name": "Src0", "kind": "Source", "params": M.draw_params(draw, "Source"),
            "limits": None}
    d.start(comp, "", draw(st.sampled_from(["", "VIN"])))
    if draw(st.booleans()):
        for op in M.mux_preamble(draw):
            d.step(op)
    n = draw(st.integers(4, 18))
    for k in range(n):
        op = M.draw_op(draw, d.model, k + 11)
        stop = False
        for one in (op if isinstance(op, list) else [op]):
            if d.step(one) == "abort":
                stop = True
                break
        if stop:
            break
    return d.ops


def body_history(ops, stats):
    """System.from_file(save(S)) for a system S reached through an edit history."""
    from sysloss.system import System
    from vlib import machine as M
    from vlib.runner import Stats

    d = M.replay_ops(ops, set(), Stats())
    if not d.in_sync() or d.undefined:
        stats.cls("history_out_of_model")
        return
    model = d.model
    spec = {"name": "Sys", "phases": model["phases"], "nodes": M.topo_nodes(model)}
    with tempfile.TemporaryDirectory(prefix="vc12_") as tmp:
        f1 = os.path.join(tmp, "a.json")
        with warnings.catch_warnings():
            warnings.simplefilter("ignore")
            try:
                d.sys.save(f1)
            except Exception as e:
                raise Fail("history.save_raises", "save() after {} raised {}".format(
                    [M.op_text(o) for o in ops][-3:], e))
            try:
                sys2 = System.from_file(f1)
            except Exception as e:
                raise Fail("history.reload.exception." + type(e).__name__,
                           "from_file(save(S)) raised {}: {}; history tail {}".format(
                               type(e).__name__, e, [M.op_text(o) for o in ops][-3:]))
        doc = json.load(open(f1))
        for n in spec["nodes"]:
            if n["kind"] == "PMux" and "parents" not in doc.get(n["name"], {}):
                raise Fail("history.mux_section_missing",
                           "after {} the saved file has no PMux section for {!r}".format(
                               [M.op_text(o) for o in ops][-3:], n["name"]))
            if n["kind"] == "PMux" and doc[n["name"]]["parents"] != n["parents"]:
                raise Fail("history.mux_input_order",
                           "after {} the saved file lists the mux inputs {} but their priority "
                           "order is {}".format([M.op_text(o) for o in ops][-3:],
                                                doc[n["name"]]["parents"], n["parents"]))
        ra, rb = reports(d.sys, spec, stats, "orig"), reports(sys2, spec, stats, "reload")
        compare_reports(ra, rb, spec, "history.roundtrip")
    stats.cls("history_roundtrip")
    kinds = {n["kind"] for n in spec["nodes"]}
    if len(spec["nodes"]) >= 4 and len(kinds) >= 3:
        stats.nontriv(jhash(ops), sample=[M.op_text(o) for o in ops][:12])


def _case(o):
    return st.fixed_dictionaries({
        "spec": G.systems(o),
        "indent": st.sampled_from([0, 1, 4, None]),
        "version": st.sampled_from(["patch", "minor", "major", "same", "lower", "rc_next",
                                    "post", "rc_same"]),
    })


def _reduce(case):
    for c in S.reductions(case["spec"]):
        yield {**case, "spec": c}


def streams(tier, avoid):
    big = tier == "thorough"
    mn = 14 if big else 10
    common = dict(max_nodes=mn, min_nodes=4, limits=True, groups=True, rails=True,
                  rail_refs=True, thermal=True, avoid=avoid)
    o1 = G.Opts(**common)
    o2 = G.Opts(phases=True, odd_phase_conf=True, **common)
    return [
        Stream("static", body, strategy=_case(o1), n={"quick": 350, "thorough": 2500},
               reduce=_reduce),
        Stream("phases", body, strategy=_case(o2), n={"quick": 300, "thorough": 2500},
               reduce=_reduce),
        Stream("after_history", body_history, strategy=histories(),
               n={"quick": 150, "thorough": 1200}),
    ]
