"""C06 - load phases: each phase is solved with each component's phase behaviour."""

import copy

from hypothesis import strategies as st

from vlib import build as B
from vlib import gen as G
from vlib import refmodel as R
from vlib import rowcheck as RC
from vlib import spec as S
from vlib.props.c01 import classify, solve_or_skip
from vlib.runner import Fail, Stream, jhash
from vlib.table import Table, cell_eq, frames_equal

ID = "C06"
LEVEL = "exploration"
RULE = (
    "Systems with 2-4 load phases and drawn per-component phase configurations (active "
    "lists incl. empty on Source/Converter/LinReg/PSwitch/PMux, value tables over any subset "
    "of the phases on PLoad/ILoad/RLoad, sleep values non-zero 2/3 of the time). Stream "
    "'rows': every phase's rows satisfy neighbour consistency and the phase-specific "
    "reference law. Stream 'meta': solve(phase=p) equals the phase-p rows of solve() cell for "
    "cell, unknown phase -> ValueError, phases without any component configuration give "
    "the phase-less result in every phase, and load-table-only systems equal, per phase, "
    "the phase-less system built with that phase's values. Stream 'rail_addressed': "
    "set_comp_phases through a rail name behaves like through the component name, also when "
    "the component is later re-configured by name. Non-trivial: a load on its sleep value in "
    "some phase, a regulator inactive in one phase and active in another, and >= 2 phases "
    "with different totals; distinct by spec hash."
)
ASSUMPTIONS = [
    "I10: only well-typed configurations (lists on list-kinds, dicts on loads, known phase names)",
    "residual tolerance as in C01",
]


def nontrivial(spec, tab):
    phases = list(spec["phases"])
    sleep = False
    toggled = False
    for n in spec["nodes"]:
        pc = n.get("pconf")
        if not pc:
            continue
        if n["kind"] in S.LOADS and any(p not in pc for p in phases):
            sleep = True
        if n["kind"] in ("Converter", "LinReg", "PSwitch", "PMux"):
            if any(p in pc for p in phases) and any(p not in pc for p in phases):
                toggled = True
    tots = {tab.special[(p, "System total")]["Power (W)"] for p in phases
            if (p, "System total") in tab.special}
    return sleep and toggled and len(tots) >= 2


def body_rows(spec, stats):
    classify(spec, stats)
    for k, v in spec.get("_gen", {}).get("excluded", {}).items():
        stats.excluded[k] += v
    sys = B.build(spec)
    df = solve_or_skip(sys, stats)
    tab = Table(df)
    phases = list(spec["phases"])
    if tab.phases() != phases:
        raise Fail("phases.order", "table phases {} vs declared {}".format(tab.phases(), phases))
    for ph in phases:
        RC.check_rows(spec, tab, ph, 1e-6, 1e-6)
    stats.cls("solved")
    stats.cls("phases={}".format(len(phases)))
    if any(d == 0 for d in spec["phases"].values()):
        stats.cls("phase_of_zero_duration")
    if nontrivial(spec, tab):
        stats.nontriv(jhash([spec["nodes"], spec["phases"]]), sample=S.summarize(spec))


def _single_vs_all(sys, spec, df_all, **kw):
    for ph in spec["phases"]:
        try:
            one = B.solve(sys, phase=ph, **kw)
        except Exception as e:
            raise Fail("single.exception." + type(e).__name__,
                       "solve() returned all phases {} but solve(phase={!r}) raised {}: {}".format(
                           dict(spec["phases"]), ph, type(e).__name__, e))
        sub = df_all[df_all["Phase"] == ph].reset_index(drop=True)
        cols = list(one.columns)
        missing = [c for c in cols if c not in sub.columns]
        if missing:
            raise Fail("single.columns", "solve(phase={!r}) has columns {} the all-phase "
                       "result lacks".format(ph, missing))
        extra = [c for c in sub.columns if c not in cols]
        for c in extra:
            if any(v != "" for v in sub[c].tolist()):
                raise Fail("single.columns", "all-phase rows of {!r} carry column {!r} that "
                           "solve(phase=...) does not show".format(ph, c))
        d = frames_equal(one, sub[cols])
        if d:
            raise Fail("single.differs", "solve(phase={!r}) vs rows of solve(): {}".format(ph, d))


def strip_phases(spec, phase=None):
    """Phase-less spec; with `phase`, loads take their value for that phase."""
    s = S.clone(spec)
    s["phases"] = {}
    for n in s["nodes"]:
        pc = n.get("pconf")
        n["pconf"] = None
        if phase is not None and pc and n["kind"] in S.LOADS:
            k = n["kind"]
            main = {"PLoad": "pwr", "ILoad": "ii", "RLoad": "rs"}[k]
            n["params"][main] = R.load_value({**n, "pconf": pc}, phase)
    return s


def _scales(spec):
    """Absolute accuracy of a converged solution: currents are resolved to about 1e-8 A
    (numpy's default atol in the convergence test, known finding F18), which a series
    resistance R turns into R*1e-8 V."""
    rsum = 0.0
    for n in spec["nodes"]:
        rs = n["params"].get("rs", 0.0)
        if n["kind"] in ("Source", "RLoss", "PSwitch", "PMux", "Rectifier"):
            if isinstance(rs, list):
                rsum += max(abs(x) for x in rs) if rs else 0.0
            elif not isinstance(rs, dict):
                rsum += abs(rs) * (2.0 if n["kind"] == "Rectifier" else 1.0)
    return 1e-7, 1e-7 * (1.0 + rsum)


def _compare_phase_with_static(tab_ph, ph, static_df, sig, spec=None):
    ts = Table(static_df)
    abs_i, abs_v = _scales(spec) if spec is not None else (1e-7, 1e-7)
    for (p, name), r in tab_ph.by.items():
        if p != ph:
            continue
        rs = ts.by[("", name)]
        # two independently converged solutions: 3e-5 relative plus the solver's absolute
        # resolution; Loss is a difference of nearly equal voltages times a current, so its
        # tolerance (and the efficiency's) is relative to the power flowing through the row
        vmax = max(abs(r["Vin (V)"]), abs(r["Vout (V)"]))
        imax = max(abs(r["Iin (A)"]), abs(r["Iout (A)"]))
        abs_p = abs_i * vmax + abs_v * imax
        pw = max(abs(r["Power (W)"]), abs(rs["Power (W)"]), abs(r["Vin (V)"] * r["Iin (A)"]))
        for c in ("Vin (V)", "Vout (V)", "Iin (A)", "Iout (A)", "Power (W)", "Loss (W)",
                  "Efficiency (%)", "Warnings"):
            if c in ("Vin (V)", "Vout (V)"):
                tol = abs_v
            elif c in ("Iin (A)", "Iout (A)"):
                tol = abs_i
            elif c == "Power (W)":
                tol = abs_p
            elif c == "Loss (W)":
                tol = abs_p + 3e-5 * pw
            elif c == "Efficiency (%)":
                tol = 100.0 * (2 * abs_p + 3e-5 * pw) / pw if pw > 0 else 1e-7
            else:
                tol = 0.0
            if not cell_eq(r[c], rs[c], rel=3e-5, abs_=tol):
                raise Fail(sig, "phase {!r}, {!r}: {} = {!r} but the phase-less system gives "
                           "{!r}".format(ph, name, c, r[c], rs[c]))


def body_meta(case, stats):
    spec = case["spec"]
    mode = case["mode"]
    spec = S.clone(spec)
    if mode == "no_conf":
        for n in spec["nodes"]:
            n["pconf"] = None
    elif mode == "loads_only":
        for n in spec["nodes"]:
            if n["kind"] not in S.LOADS:
                n["pconf"] = None
    stats.cls("mode:" + mode)
    sys = B.build(spec)
    df = solve_or_skip(sys, stats)
    tab = Table(df)
    _single_vs_all(sys, spec, df)
    # the same with the optional columns switched on (energy, ambient, tags)
    kw = {"energy": True, "ta": 40.0, "tags": {"Tag": 1}}
    _single_vs_all(sys, spec, solve_or_skip(sys, stats, **kw), **kw)
    # unknown phase
    bad = case["bad_phase"]
    if bad not in spec["phases"]:
        try:
            B.solve(sys, phase=bad)
        except ValueError:
            pass
        except Exception as e:
            raise Fail("unknown_phase.exception", "solve(phase={!r}) raised {}: {}".format(
                bad, type(e).__name__, e))
        else:
            raise Fail("unknown_phase.accepted", "solve(phase={!r}) returned a table; phases "
                       "are {}".format(bad, list(spec["phases"])))
    if mode == "no_conf":
        static = solve_or_skip(B.build(strip_phases(spec)), stats)
        for ph in spec["phases"]:
            _compare_phase_with_static(tab, ph, static, "noconf.differs", spec)
    elif mode == "loads_only":
        for ph in spec["phases"]:
            static = solve_or_skip(B.build(strip_phases(spec, ph)), stats)
            _compare_phase_with_static(tab, ph, static, "loadtable.differs", spec)
    stats.cls("solved")
    if mode == "full":
        if nontrivial(spec, tab):
            stats.nontriv(jhash([spec["nodes"], spec["phases"], mode]),
                          sample={"mode": mode, **S.summarize(spec)})
    else:
        uses = any(n.get("pconf") for n in spec["nodes"]) or mode == "no_conf"
        tots = {tab.special[(p, "System total")]["Power (W)"] for p in spec["phases"]}
        if uses and (mode == "no_conf" or len(tots) >= 2):
            stats.nontriv(jhash([spec["nodes"], spec["phases"], mode]),
                          sample={"mode": mode, **S.summarize(spec)})


def body_rail(case, stats):
    """set_comp_phases addressed by rail name == by component name; a later configuration
    by name replaces it."""
    spec = case["spec"]
    targets = [n for n in spec["nodes"] if n["rail"] and n["kind"] in S.PHASE_LIST_KINDS
               and n.get("pconf")]
    if not targets:
        stats.cls("no_rail_target")
        return
    t = targets[case["pick"] % len(targets)]
    phases = list(spec["phases"])
    other = [p for p in phases if p not in t["pconf"]] or phases[:1]
    # A: configure through the rail name
    sa = B.build(spec, phases=False)
    sa.set_sys_phases(copy.deepcopy(spec["phases"]))
    for n in spec["nodes"]:
        if n.get("pconf") is not None:
            sa.set_comp_phases(n["rail"] if n is t else n["name"], copy.deepcopy(n["pconf"]))
    sb = B.build(spec)
    da, db = solve_or_skip(sa, stats), solve_or_skip(sb, stats)
    d = frames_equal(da, db)
    if d:
        raise Fail("rail_addressed.differs",
                   "set_comp_phases({!r} [rail of {!r}], {}) vs by name: {}".format(
                       t["rail"], t["name"], t["pconf"], d))
    # then re-configure by name on A; must equal a system configured that way from scratch
    sa.set_comp_phases(t["name"], list(other))
    spec2 = S.clone(spec)
    S.node_map(spec2)[t["name"]]["pconf"] = list(other)
    sb2 = B.build(spec2)
    try:
        da2 = B.solve(sa)
    except (ValueError, RuntimeError):
        stats.cls("not_solved_after_reconf")
        return
    db2 = solve_or_skip(sb2, stats)
    d = frames_equal(da2, db2)
    if d:
        raise Fail("rail_addressed.stale",
                   "{!r} configured through its rail {!r} with {} and then by name with {}: "
                   "differs from a system configured by name only: {}".format(
                       t["name"], t["rail"], t["pconf"], other, d))
    pa, pb = sa.phases(), sb2.phases()
    d = frames_equal(pa, pb)
    if d:
        raise Fail("rail_addressed.phases_report", "phases() differs: {}".format(d))
    stats.cls("solved")
    stats.nontriv(jhash([spec["nodes"], spec["phases"], t["name"]]),
                  sample={"target": t["name"], "rail": t["rail"], **S.summarize(spec)})


def _reduce_case(case):
    for c in S.reductions(case["spec"]):
        yield {**case, "spec": c}


def streams(tier, avoid):
    big = tier == "thorough"
    mn = 14 if big else 9
    o = G.Opts(max_nodes=mn, phases=True, avoid=avoid, min_nodes=3, odd_phase_conf=True,
               zero_duration=True)
    orail = G.Opts(max_nodes=mn, phases=True, rails=True, avoid=avoid, min_nodes=3)
    meta = st.fixed_dictionaries({
        "spec": G.systems(o),
        "mode": st.sampled_from(["full", "full", "no_conf", "loads_only"]),
        "bad_phase": st.sampled_from(["nope", "Sleep", " sleep", "N/A", "active2"]),
    })
    rail = st.fixed_dictionaries({"spec": G.systems(orail), "pick": st.integers(0, 20)})
    return [
        Stream("rows", body_rows, strategy=G.systems(o), n={"quick": 600, "thorough": 5000},
               reduce=S.reductions),
        Stream("meta", body_meta, strategy=meta, n={"quick": 200, "thorough": 2000},
               reduce=_reduce_case),
        Stream("rail_addressed", body_rail, strategy=rail, n={"quick": 200, "thorough": 1500},
               reduce=_reduce_case),
    ]
