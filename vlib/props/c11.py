"""C11 - constructors reject unphysical parameters and normalise signs."""

import copy
import warnings

from hypothesis import strategies as st

from vlib import build as B
from vlib import gen as G
from vlib import spec as S
from vlib.props.c03 import _spec2
from vlib.runner import Fail, Stream, jhash
from vlib.table import Table, frames_equal

ID = "C11"
LEVEL = "exploration"
RULE = (
    "Stream 'reject': for each of the 11 kinds a valid constructor call is drawn (scalars of "
    "either sign, ints and floats, 1-D/2-D tables, rs lists, limits dictionaries) and, half "
    "of the time, exactly one invalidating mutation from the statement's list is applied "
    "(eff <= 0 or > 1 as constant or table entry, LinReg vdrop >= |vo|, RLoad rs = +-0.0, "
    "table missing a key / io not increasing / row or column count mismatch / ragged / flat, "
    "negative tabulated ig, limits not a list / wrong length / non-number / tuple, "
    "non-number in a PMux or Rectifier rs list): mutated => ValueError, unmutated => "
    "constructs. Stream 'signflip': every resistance, current, power, voltage drop and "
    "thermal resistance is given once positive and once negative; the two components must "
    "give identical solve() tables in a probe system with an on/off phase pair (so sleep "
    "values matter), and the accepted component must show Loss >= 0, efficiency <= 100 and, "
    "for passive kinds, |Vout| <= |Vin|. Non-trivial: reject: a mutated case; signflip: a "
    "parameter that changes some cell of the table when doubled; distinct by (kind, kwargs)."
)
ASSUMPTIONS = [
    "I9: 'treated as magnitudes' is checked behaviourally (solve() tables identical)",
    "only the rejection causes named in the statement are generated as must-reject; values of "
    "other wrong types (strings as scalars, NaN) are outside the explored domain",
]

LIM_KEYS = S.LIMIT_KEYS


def sfloat(lo, hi):
    """float in [lo,hi], sometimes an int, sometimes negated"""
    return st.tuples(G.logf(lo, hi), st.integers(0, 9)).map(
        lambda t: float(round(t[0])) if t[1] == 0 and round(t[0]) >= 1 else t[0])


@st.composite
def table_for(draw, zkey):
    ni = draw(st.integers(1, 4))
    nv = draw(st.integers(1, 3))
    if nv > 1:
        ni = max(ni, 2)
    # well-conditioned axes: cumulative steps, each >= 5 % of the axis maximum
    ios = G.make_axis(draw, ni, draw(G.logf(1e-3, 5.0)), 0.05)
    vis = G.make_axis(draw, nv, draw(G.logf(1.0, 50.0)), 0.05) if nv > 1 else [
        draw(G.logf(1.0, 50.0))]
    if vis[0] == 0.0:
        vis[0] = vis[1] / 2
    if nv > 1 and min(b - a for a, b in zip(ios, ios[1:])) < 5e-4 * vis[-1]:
        nv, vis = 1, [vis[-1]]
    if zkey == "eff":
        vs = st.floats(0.05, 1.0)
    elif zkey == "vdrop":
        vs = st.floats(0.0, 0.4)
    else:
        vs = G.logf(1e-7, 1e-2)
    rows = [[draw(vs) for _ in range(ni)] for _ in range(nv)]
    return {"vi": vis, "io": ios, zkey: rows}


@st.composite
def valid_kwargs(draw, kind):
    sign = lambda v: -v if draw(st.integers(0, 3)) == 0 else v  # noqa: E731
    opt = lambda: draw(st.integers(0, 2)) > 0  # noqa: E731
    kw = {}
    small = sfloat(1e-7, 1e-2)
    if kind == "Source":
        kw["vo"] = draw(st.one_of(st.just(0.0), G.logf(0.5, 400.0).map(sign)))
        if opt():
            kw["rs"] = sign(draw(sfloat(1e-3, 10.0)))
    elif kind == "PLoad":
        kw["pwr"] = sign(draw(sfloat(1e-4, 50.0)))
        if opt():
            kw["pwrs"] = sign(draw(small))
    elif kind == "ILoad":
        kw["ii"] = sign(draw(sfloat(1e-5, 5.0)))
        if opt():
            kw["iis"] = sign(draw(small))
    elif kind == "RLoad":
        kw["rs"] = sign(draw(sfloat(1e-2, 1e4)))
    elif kind == "RLoss":
        kw["rs"] = sign(draw(st.one_of(st.just(0.0), sfloat(1e-3, 10.0))))
    elif kind == "VLoss":
        kw["vdrop"] = draw(st.one_of(sfloat(1e-3, 2.0).map(sign), table_for("vdrop"), table_for("vdrop")))
    elif kind == "Converter":
        kw["vo"] = sign(draw(sfloat(0.5, 60.0)))
        kw["eff"] = draw(st.one_of(st.floats(0.01, 1.0), st.just(1.0), table_for("eff"), table_for("eff")))
        if opt():
            kw["iq"] = sign(draw(small))
        if opt():
            kw["iis"] = sign(draw(small))
    elif kind == "LinReg":
        kw["vo"] = sign(draw(sfloat(0.5, 60.0)))
        if opt():
            kw["vdrop"] = sign(abs(kw["vo"]) * draw(st.floats(0.0, 0.99)))
        if opt():
            kw["ig"] = draw(st.one_of(small.map(sign), table_for("ig"), table_for("ig")))
        if opt():
            kw["iis"] = sign(draw(small))
    elif kind in ("PSwitch", "PMux"):
        if opt():
            if kind == "PMux" and draw(st.booleans()):
                kw["rs"] = [sign(draw(sfloat(1e-3, 5.0))) for _ in range(draw(st.integers(1, 4)))]
            else:
                kw["rs"] = sign(draw(sfloat(1e-3, 5.0)))
        if opt():
            kw["ig"] = draw(st.one_of(small.map(sign), table_for("ig"), table_for("ig")))
        if opt():
            kw["iis"] = sign(draw(small))
    elif kind == "Rectifier":
        if draw(st.booleans()):
            kw["vdrop"] = draw(st.one_of(sfloat(1e-2, 1.0).map(sign), table_for("vdrop")))
        else:
            if opt():
                kw["rs"] = sign(draw(sfloat(1e-3, 5.0)))
            if opt():
                kw["ig"] = draw(st.one_of(small.map(sign), table_for("ig"), table_for("ig")))
            if opt():
                kw["iq"] = sign(draw(small))
    if kind != "Source" and opt():
        kw["rt"] = sign(draw(sfloat(0.1, 200.0)))
    if kind in S.LOADS and opt():
        kw["loss"] = draw(st.booleans())
    if opt():
        lim = {}
        for k in LIM_KEYS:
            if draw(st.integers(0, 3)) == 0:
                a, b = draw(sfloat(1e-6, 1e3)), draw(sfloat(1e-6, 1e3))
                lim[k] = [sign(a), sign(b)]
        kw["limits"] = lim
    return kw


TABLE_PARAM = {"VLoss": "vdrop", "Converter": "eff", "LinReg": "ig", "PSwitch": "ig",
               "PMux": "ig", "Rectifier": None}


def mutations(kind, kw):
    """Names of invalidating mutations applicable to this call."""
    out = ["limits_notlist", "limits_len", "limits_nonnumber", "limits_tuple"]
    if kind == "Converter":
        out += ["eff_le0", "eff_gt1"]
        if isinstance(kw["eff"], dict):
            out += ["eff_entry_le0", "eff_entry_gt1"]
    if kind == "LinReg":
        out += ["vdrop_ge_vo"]
    if kind == "RLoad":
        out += ["rs_zero"]
    if kind in ("PMux", "Rectifier"):
        if kind == "PMux" or "vdrop" not in kw:
            out += ["rs_list_nonnumber"]
    for p, v in kw.items():
        if isinstance(v, dict) and p != "limits":
            out += ["t_missing_key", "t_io_not_increasing", "t_rows_mismatch",
                    "t_cols_mismatch", "t_flat"]
            if len(v["vi"]) != len(v["io"]):
                out += ["t_transposed"]
            if len(v["vi"]) > 1:
                out += ["t_ragged"]
            if p == "ig":
                out += ["t_neg_ig"]
    return out


def mutate(kind, kw, name, r):
    """Apply mutation `name`; r: list of drawn helper ints/floats."""
    kw = copy.deepcopy(kw)
    tp = next((p for p, v in kw.items() if isinstance(v, dict) and p != "limits"), None)
    t = kw.get(tp)
    zk = tp
    i0, i1, f0 = r["i0"], r["i1"], r["f0"]
    if name == "limits_notlist":
        kw["limits"] = {LIM_KEYS[i0 % 10]: [(1.0, 2.0), 5.0, {"a": 1}, "1,2"][i1 % 4]}
        if i1 % 4 == 0:
            name = "limits_tuple"
    elif name == "limits_tuple":
        kw["limits"] = {LIM_KEYS[i0 % 10]: (0.0, 1.0)}
    elif name == "limits_len":
        kw["limits"] = {LIM_KEYS[i0 % 10]: [[1.0], [1.0, 2.0, 3.0], []][i1 % 3]}
    elif name == "limits_nonnumber":
        kw["limits"] = {LIM_KEYS[i0 % 10]: [[0.0, "1"], [None, 1.0], [[0.0], 1.0]][i1 % 3]}
    elif name == "eff_le0":
        kw["eff"] = [0.0, -0.0, -f0, -1.0][i0 % 4]
    elif name == "eff_gt1":
        kw["eff"] = [1.0 + 1e-9, 1.0 + f0, 100.0][i0 % 3]
    elif name in ("eff_entry_le0", "eff_entry_gt1"):
        rr, cc = i0 % len(t["eff"]), i1 % len(t["eff"][0])
        t["eff"][rr][cc] = [0.0, -f0][i0 % 2] if name == "eff_entry_le0" else 1.0 + f0
    elif name == "vdrop_ge_vo":
        m = abs(kw["vo"]) * [1.0, 1.0 + f0, 3.0][i0 % 3]
        kw["vdrop"] = m if i1 % 2 else -m
    elif name == "rs_zero":
        kw["rs"] = [0.0, -0.0, 0][i0 % 3]
    elif name == "rs_list_nonnumber":
        kw["rs"] = [[0.1, "a"], ["x"], [0.1, None, 0.2], [[0.1], 0.2],
                    [[0.05], [0.08]], [[0.1, 0.2], [0.3, 0.4]]][i0 % 6]
        kw.pop("vdrop", None)
    elif name == "t_missing_key":
        t.pop(["vi", "io", zk][i0 % 3])
    elif name == "t_io_not_increasing":
        io = t["io"]
        if len(io) == 1:
            t["io"] = [io[0], io[0]]
            t[zk] = [row + [row[0]] for row in t[zk]]
        elif i0 % 2:
            io[-1] = io[0]
        else:
            io[0], io[-1] = io[-1], io[0]
    elif name == "t_rows_mismatch":
        if i0 % 2 or len(t["vi"]) == 1:
            t["vi"] = t["vi"] + [t["vi"][-1] * 2]
        else:
            t[zk] = t[zk][:-1]
    elif name == "t_cols_mismatch":
        if i0 % 2:
            t["io"] = t["io"] + [t["io"][-1] * 2]
        else:
            t[zk] = [row + [row[-1]] for row in t[zk]]
    elif name == "t_ragged":
        t[zk][i0 % len(t[zk])] = t[zk][i0 % len(t[zk])] + [0.5]
    elif name == "t_transposed":
        # same number of entries, rows and columns exchanged
        t[zk] = [list(col) for col in zip(*t[zk])]
    elif name == "t_flat":
        t[zk] = [v for row in t[zk] for v in row]
    elif name == "t_neg_ig":
        rr, cc = i0 % len(t["ig"]), i1 % len(t["ig"][0])
        t["ig"][rr][cc] = -abs(t["ig"][rr][cc]) - 1e-9
    return kw, name


@st.composite
def reject_cases(draw):
    kind = draw(st.sampled_from(S.KINDS))
    kw = draw(valid_kwargs(kind))
    mut = None
    if draw(st.booleans()):
        names = mutations(kind, kw)
        # pick a category first (limits / kind-specific scalar / table), then a mutation
        cats = {}
        for nme in names:
            c = "limits" if nme.startswith("limits") else ("table" if nme.startswith("t_")
                                                            or "entry" in nme else "scalar")
            cats.setdefault(c, []).append(nme)
        order = [c for c in ("table", "scalar", "limits") if c in cats]
        w = draw(st.integers(0, 2 * len(order) - 1))
        cat = order[w // 2] if w // 2 < len(order) - 1 or len(order) == 1 else order[-1]
        if "limits" in cats and len(order) > 1 and w == 2 * len(order) - 1:
            cat = order[0]
        names = cats[cat]
        mut = names[draw(st.integers(0, len(names) - 1))]
        r = {"i0": draw(st.integers(0, 11)), "i1": draw(st.integers(0, 11)),
             "f0": draw(G.logf(1e-6, 10.0))}
        kw, mut = mutate(kind, kw, mut, r)
    return {"kind": kind, "kw": kw, "mutation": mut}


def construct(kind, kw):
    import sysloss.components as C

    with warnings.catch_warnings():
        warnings.simplefilter("ignore")
        return getattr(C, kind)("X", **copy.deepcopy(kw))


def _fix_types(kw):
    """JSON round trip turns tuples into lists; restore the tuple mutation."""
    return kw


def body_reject(case, stats):
    kind, kw, mut = case["kind"], case["kw"], case["mutation"]
    if mut == "limits_tuple":
        kw = copy.deepcopy(kw)
        for k, v in kw["limits"].items():
            kw["limits"][k] = tuple(v)
    try:
        construct(kind, kw)
        outcome = "accepted"
    except ValueError:
        outcome = "ValueError"
    except Exception as e:  # noqa
        outcome = type(e).__name__
    stats.cls("{}:{}".format(mut or "valid", outcome))
    stats.cls("kind:" + kind)
    if mut is None:
        if outcome != "accepted":
            raise Fail("valid.rejected." + kind,
                       "{}(**{}) raised {} although every parameter is valid".format(
                           kind, kw, outcome))
    else:
        if outcome == "accepted":
            raise Fail("invalid.accepted.{}".format(mut),
                       "{}(**{}) was accepted although [{}]".format(kind, kw, mut))
        if outcome != "ValueError":
            raise Fail("invalid.wrong_exception.{}".format(mut),
                       "{}(**{}) [{}] raised {} instead of ValueError".format(
                           kind, kw, mut, outcome))
        stats.nontriv(jhash([kind, kw, mut]), sample={"kind": kind, "kwargs": kw,
                                                      "mutation": mut, "outcome": outcome})


# ---- sign flip -------------------------------------------------------------------------------
SIGNED = {  # kind -> parameters documented as magnitudes
    "Source": ["rs"], "PLoad": ["pwr", "pwrs", "rt"], "ILoad": ["ii", "iis", "rt"],
    "RLoad": ["rs", "rt"], "RLoss": ["rs", "rt"], "VLoss": ["vdrop", "rt"],
    "Converter": ["iq", "iis", "rt"], "LinReg": ["vdrop", "ig", "iis", "rt"],
    "PSwitch": ["rs", "ig", "iis", "rt"], "PMux": ["rs", "rs_list", "ig", "iis", "rt"],
    "Rectifier": ["vdrop", "rs", "ig", "iq", "rt"],
}


def probe(kind, kw, V=12.0, load=0.4):
    """Source - X - ILoad with phases on/off; X (or the load) sleeps in 'off'."""
    kw = copy.deepcopy(kw)
    lim = kw.pop("limits", None)
    if kind == "Source":
        spec = _spec2([("X", "Source", [], kw), ("L", "ILoad", ["X"], {"ii": load})])
    elif kind in S.LOADS:
        spec = _spec2([("S", "Source", [], {"vo": V}), ("X", kind, ["S"], kw)])
    else:
        spec = _spec2([("S", "Source", [], {"vo": V}), ("X", kind, ["S"], kw),
                       ("L", "ILoad", ["X"], {"ii": load}),
                       ("Z", "ILoad", ["X"], {"ii": 0.0})])
    spec["phases"] = {"on": 1.0, "off": 3.0, "idle": 2.0}
    x = S.node_map(spec)["X"]
    x["limits"] = lim
    if kind in ("Converter", "LinReg", "PSwitch", "PMux"):
        x["pconf"] = ["on", "idle"]
        S.node_map(spec)["L"]["pconf"] = {"on": load}
    elif kind in S.LOADS:
        main = {"PLoad": "pwr", "ILoad": "ii", "RLoad": "rs"}[kind]
        x["pconf"] = {"on": abs(kw[main]) * 0.5}
    elif kind != "Source":
        S.node_map(spec)["L"]["pconf"] = {"on": load}
    return spec


@st.composite
def flip_cases(draw):
    kind = draw(st.sampled_from(S.KINDS))
    par = draw(st.sampled_from(SIGNED[kind]))
    f = lambda lo, hi: draw(G.logf(lo, hi))  # noqa: E731
    kw = {}
    if kind == "Source":
        kw = {"vo": draw(st.sampled_from([5.0, 12.0, 48.0])), "rs": f(1e-2, 2.0)}
    elif kind == "PLoad":
        kw = {"pwr": f(0.1, 5.0), "pwrs": f(1e-4, 0.05), "rt": f(1.0, 50.0)}
    elif kind == "ILoad":
        kw = {"ii": f(0.01, 1.0), "iis": f(1e-5, 1e-3), "rt": f(1.0, 50.0)}
    elif kind == "RLoad":
        kw = {"rs": f(5.0, 500.0), "rt": f(1.0, 50.0)}
    elif kind == "RLoss":
        kw = {"rs": f(0.01, 2.0), "rt": f(1.0, 50.0)}
    elif kind == "VLoss":
        kw = {"vdrop": f(0.05, 1.0), "rt": f(1.0, 50.0)}
    elif kind == "Converter":
        kw = {"vo": 3.3, "eff": 0.85, "iq": f(1e-5, 1e-2), "iis": f(1e-6, 1e-3),
              "rt": f(1.0, 50.0)}
    elif kind == "LinReg":
        kw = {"vo": 11.95 if par == "vdrop" else 5.0, "vdrop": f(0.1, 2.0),
              "ig": f(1e-5, 1e-2), "iis": f(1e-6, 1e-3), "rt": f(1.0, 50.0)}
    elif kind == "PSwitch":
        kw = {"rs": f(0.01, 2.0), "ig": f(1e-5, 1e-2), "iis": f(1e-6, 1e-3), "rt": f(1.0, 50.0)}
    elif kind == "PMux":
        kw = {"rs": f(0.01, 2.0), "ig": f(1e-5, 1e-2), "iis": f(1e-6, 1e-3), "rt": f(1.0, 50.0)}
        if par == "rs_list":
            kw["rs"] = [f(0.01, 2.0)]
    elif kind == "Rectifier":
        if par == "vdrop":
            kw = {"vdrop": f(0.05, 1.0), "rt": f(1.0, 50.0)}
        else:
            kw = {"rs": f(0.01, 2.0), "ig": f(1e-5, 1e-2), "iq": f(1e-5, 1e-2),
                  "rt": f(1.0, 50.0)}
            if par == "iq":
                kw["_noload"] = True
    return {"kind": kind, "par": par, "kw": kw}


def _flip(kw, par, factor):
    kw = copy.deepcopy(kw)
    key = "rs" if par == "rs_list" else par
    v = kw[key]
    kw[key] = [x * factor for x in v] if isinstance(v, list) else v * factor
    return kw


def body_flip(case, stats):
    kind, par, kw = case["kind"], case["par"], dict(case["kw"])
    noload = kw.pop("_noload", False)
    load = 0.0 if (noload or (kind == "Converter" and par == "iq")) else 0.4
    try:
        construct(kind, _flip(kw, par, -1.0))
    except ValueError as e:
        raise Fail("flip.rejected.{}.{}".format(kind, par),
                   "{} with negative {} was rejected: {}".format(kind, par, e))
    tabs = {}
    for name, k2 in (("pos", kw), ("neg", _flip(kw, par, -1.0)), ("dbl", _flip(kw, par, 2.0))):
        try:
            tabs[name] = B.solve(B.build(probe(kind, k2, load=load)))
        except (ValueError, RuntimeError) as e:
            if name == "dbl":
                tabs[name] = None
                continue
            if name == "neg" and "pos" in tabs:
                raise Fail("flip.differs.{}.{}".format(kind, par),
                           "{}({}={!r}) solves but with the sign flipped solve() raises "
                           "{}".format(kind, par, kw["rs" if par == "rs_list" else par], e))
            stats.cls("probe_not_solved")
            return
    d = frames_equal(tabs["pos"], tabs["neg"])
    if d:
        raise Fail("flip.differs.{}.{}".format(kind, par),
                   "{}: {} = {!r} and its negative give different tables: {}".format(
                       kind, par, kw["rs" if par == "rs_list" else par], d))
    # consequences on the accepted (negative-valued) component
    t = Table(tabs["neg"])
    for (ph, name), r in t.by.items():
        if r["Loss (W)"] < 0:
            raise Fail("flip.negative_loss." + kind, "{!r} in {!r}: Loss {!r}".format(
                name, ph, r["Loss (W)"]))
        if isinstance(r["Efficiency (%)"], float) and r["Efficiency (%)"] > 100.0 + 1e-6:
            raise Fail("flip.eff_above_100." + kind, "{!r} in {!r}: efficiency {!r}".format(
                name, ph, r["Efficiency (%)"]))
        if name == "X" and kind in S.PASSIVE and abs(r["Vout (V)"]) > abs(r["Vin (V)"]) * (
                1 + 1e-6):
            raise Fail("flip.amplifies." + kind, "{!r} in {!r}: Vin {!r} Vout {!r}".format(
                name, ph, r["Vin (V)"], r["Vout (V)"]))
    stats.cls("kind:{}.{}".format(kind, par))
    matters = tabs["dbl"] is None or frames_equal(tabs["pos"], tabs["dbl"]) is not None
    if matters:
        stats.nontriv(jhash([kind, par, kw]), sample={"kind": kind, "parameter": par,
                                                      "kwargs": kw})
    else:
        stats.cls("parameter_invisible:{}.{}".format(kind, par))


def _table_faults():
    """Every table-valued parameter x every table fault x every entry position
    (exhaustive axis): 1-row and 3-row tables."""
    out = []
    base_kw = {"VLoss": {}, "Converter": {"vo": 3.3}, "LinReg": {"vo": 3.3}, "PSwitch": {},
               "PMux": {}, "Rectifier": {}}
    pars = [("VLoss", "vdrop"), ("Converter", "eff"), ("LinReg", "ig"), ("PSwitch", "ig"),
            ("PMux", "ig"), ("Rectifier", "vdrop"), ("Rectifier", "ig")]
    for kind, par in pars:
        for nv in (1, 3):
            vis = [3.3, 5.0, 12.0][:nv]
            ios = [0.1, 0.5, 0.9]
            val = {"eff": 0.8, "vdrop": 0.3, "ig": 1e-3}[par]
            tab = {"vi": vis, "io": ios, par: [[val * (1 + 0.05 * (r + c)) if par != "eff"
                                                 else 0.7 + 0.03 * (r + c) for c in range(3)]
                                                for r in range(nv)]}
            kw = dict(base_kw[kind])
            kw[par] = tab
            out.append({"kind": kind, "kw": copy.deepcopy(kw), "mutation": None})
            names = ["t_missing_key", "t_io_not_increasing", "t_rows_mismatch",
                     "t_cols_mismatch", "t_flat"] + (
                         ["t_ragged"] if nv > 1 else []) + (
                         ["t_transposed"] if nv != 3 else [])
            for nme in names:
                for i0 in range(3):
                    k2, m2 = mutate(kind, kw, nme, {"i0": i0, "i1": 0, "f0": 0.5})
                    out.append({"kind": kind, "kw": k2, "mutation": m2})
            entry = []
            if par == "eff":
                entry = ["eff_entry_le0", "eff_entry_gt1"]
            elif par == "ig":
                entry = ["t_neg_ig"]
            for nme in entry:
                for r in range(nv):
                    for c in range(3):
                        k2, m2 = mutate(kind, kw, nme, {"i0": r, "i1": c, "f0": 0.25})
                        out.append({"kind": kind, "kw": k2, "mutation": m2})
    return out


def _flip_table():
    """Every (kind, magnitude parameter) pair at three fixed magnitudes (exhaustive axis)."""
    base = {
        "Source": {"vo": 12.0, "rs": 0.5}, "PLoad": {"pwr": 1.0, "pwrs": 0.01, "rt": 10.0},
        "ILoad": {"ii": 0.2, "iis": 1e-4, "rt": 10.0}, "RLoad": {"rs": 50.0, "rt": 10.0},
        "RLoss": {"rs": 0.5, "rt": 10.0}, "VLoss": {"vdrop": 0.4, "rt": 10.0},
        "Converter": {"vo": 3.3, "eff": 0.85, "iq": 1e-3, "iis": 1e-4, "rt": 10.0},
        "LinReg": {"vo": 5.0, "vdrop": 0.6, "ig": 1e-3, "iis": 1e-4, "rt": 10.0},
        "PSwitch": {"rs": 0.5, "ig": 1e-3, "iis": 1e-4, "rt": 10.0},
        "PMux": {"rs": 0.5, "ig": 1e-3, "iis": 1e-4, "rt": 10.0},
        "Rectifier": {"rs": 0.5, "ig": 1e-3, "iq": 1e-3, "rt": 10.0},
    }
    out = []
    for kind, pars in SIGNED.items():
        for par in pars:
            for scale in (0.5, 1.0, 2.0):
                kw = copy.deepcopy(base[kind])
                if kind == "Rectifier" and par == "vdrop":
                    kw = {"vdrop": 0.3, "rt": 10.0}
                if kind == "Rectifier" and par == "iq":
                    kw["_noload"] = True
                if kind == "LinReg" and par == "vdrop":
                    kw["vo"] = 11.95
                if par == "rs_list":
                    kw["rs"] = [0.5 * scale]
                else:
                    kw[par] = kw[par] * scale
                out.append({"kind": kind, "par": par, "kw": kw})
    return out


def streams(tier, avoid):
    return [
        Stream("signflip_table", body_flip, cases=_flip_table()),
        Stream("table_faults", body_reject, cases=_table_faults()),
        Stream("reject", body_reject, strategy=reject_cases(),
               n={"quick": 3000, "thorough": 20000}),
        Stream("signflip", body_flip, strategy=flip_cases(),
               n={"quick": 500, "thorough": 3000}),
    ]
