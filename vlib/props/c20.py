"""C20 - PCB trace and plane resistance follow the documented formulas.

Oracle: the closed form evaluated in exact rational arithmetic (fractions.Fraction over
the exact binary values of the float arguments), compared at 1e-12 relative, plus the
metamorphic relations named in the property (proportionality, inverse proportionality,
affine in temperature, w1/w2 symmetry, trace == plane at equal mean width).
"""

from fractions import Fraction as F

from hypothesis import strategies as st

from vlib.runner import Fail, Stream

ID = "C20"
LEVEL = "exploration"
RULE = (
    "Hypothesis draws (w1, w2, l, t) log-uniform over 1e-4..1e4, rho over 1e-9..1e-6, "
    "temp over -100..300, tcr over 0..0.01 (each also at its documented default) and a "
    "scale factor k in 0.01..100; every case is checked against exact rational "
    "arithmetic and 8 metamorphic relations. Non-trivial: w1 != w2, temp != 20 and "
    "tcr not the default, so every term of the formula matters; distinct by argument tuple."
)
ASSUMPTIONS = [
    "float arithmetic of the closed form is accurate to 1e-12 relative (4-5 roundings)",
    "temperature factor 1+tcr*(temp-20) kept >= 0.05 in magnitude so that relative "
    "comparison is meaningful (cancellation near zero is not a formula defect)",
]

REL = 1e-12


def logf(lo, hi):
    import math

    return st.floats(math.log10(lo), math.log10(hi), allow_nan=False).map(
        lambda e: 10.0**e
    )


def _mostly(strategy, default):
    """strategy with weight 5/6, the documented default with weight 1/6"""
    return st.integers(0, 5).flatmap(lambda i: st.just(default) if i == 0 else strategy)


def _case():
    from sysloss.utils import RHO, TCR

    return st.fixed_dictionaries(
        {
            "w1": logf(1e-4, 1e4),
            "w2": _mostly(logf(1e-4, 1e4), None),  # None: w2 = w1
            "l": logf(1e-4, 1e4),
            "t": logf(1e-4, 1e2),
            "rho": _mostly(logf(1e-9, 1e-6), RHO),
            "temp": _mostly(st.floats(-100.0, 300.0, allow_nan=False), 20.0),
            "tcr": _mostly(st.floats(0.0, 0.01, allow_nan=False), TCR),
            "k": logf(0.01, 100.0),
            "use_defaults": st.booleans(),
        }
    )


def _relerr(a, exact):
    if exact == 0:
        return abs(a)
    return abs((F(a) - exact) / exact)


def body(case, stats):
    from sysloss.utils import RHO, TCR, plane_res, trace_res

    w1, l, t = case["w1"], case["l"], case["t"]
    w2 = case["w2"] if case["w2"] is not None else w1
    rho, temp, tcr, k = case["rho"], case["temp"], case["tcr"], case["k"]
    tf = 1 + F(tcr) * (F(temp) - 20)
    if abs(tf) < F(1, 20):
        stats.cls("tempfactor_near_zero_skipped")
        temp = 20.0
        tf = F(1)
    kw = dict(w1_mm=w1, w2_mm=w2, l_mm=l, t_mm=t, rho=rho, temp=temp, tcr=tcr)
    if case["use_defaults"] and rho == RHO and temp == 20.0 and tcr == TCR:
        kw = dict(w1_mm=w1, w2_mm=w2, l_mm=l, t_mm=t)
        stats.cls("defaults_omitted")
    r = trace_res(**kw)
    area = (F(w1) + F(w2)) / 2 * F(t) / 1000
    exact = F(rho) * F(l) / area * tf
    if not (r == r) or _relerr(r, exact) > REL:
        raise Fail("trace.closed_form", "trace_res({}) = {!r}, exact {!r}".format(
            kw, r, float(exact)))
    # plane
    pk = dict(w=w1, l=l, t_mm=t, rho=rho, temp=temp, tcr=tcr)
    rp = plane_res(**pk)
    exactp = F(rho) / (F(t) / 1000) * F(l) / F(w1) * tf
    if not (rp == rp) or _relerr(rp, exactp) > REL:
        raise Fail("plane.closed_form", "plane_res({}) = {!r}, exact {!r}".format(
            pk, rp, float(exactp)))

    full = dict(w1_mm=w1, w2_mm=w2, l_mm=l, t_mm=t, rho=rho, temp=temp, tcr=tcr)
    r = trace_res(**full)

    def rel(name, got, want, tol=1e-11):
        if abs(got - want) > tol * max(abs(got), abs(want)):
            raise Fail("meta." + name, "{}: got {!r}, expected {!r} for {} k={}".format(
                name, got, want, full, k))

    rel("trace.len_prop", trace_res(**{**full, "l_mm": k * l}), k * r)
    rel("trace.rho_prop", trace_res(**{**full, "rho": k * rho}), k * r)
    rel("trace.thick_inv", trace_res(**{**full, "t_mm": k * t}), r / k)
    rel("trace.width_inv", trace_res(**{**full, "w1_mm": k * w1, "w2_mm": k * w2}), r / k)
    rel("trace.sym", trace_res(**{**full, "w1_mm": w2, "w2_mm": w1}), r)
    r20 = trace_res(**{**full, "temp": 20.0})
    # affine in temperature: the difference is a cancellation, so the tolerance is
    # relative to the operands (|r| + |r20|), not to the difference
    if abs((r - r20) - r20 * tcr * (temp - 20.0)) > 4e-12 * (abs(r) + abs(r20)):
        raise Fail("meta.trace.affine_temp", "R(T)-R(20) = {!r}, expected {!r} for {}".format(
            r - r20, r20 * tcr * (temp - 20.0), full))
    rel("plane.len_prop", plane_res(**{**pk, "l": k * l}), k * rp)
    rel("plane.rho_prop", plane_res(**{**pk, "rho": k * rho}), k * rp)
    rel("plane.thick_inv", plane_res(**{**pk, "t_mm": k * t}), rp / k)
    rel("plane.width_inv", plane_res(**{**pk, "w": k * w1}), rp / k)
    rp20 = plane_res(**{**pk, "temp": 20.0})
    if abs((rp - rp20) - rp20 * tcr * (temp - 20.0)) > 4e-12 * (abs(rp) + abs(rp20)):
        raise Fail("meta.plane.affine_temp", "R(T)-R(20) = {!r}, expected {!r} for {}".format(
            rp - rp20, rp20 * tcr * (temp - 20.0), pk))
    # trace with w1 = w2 = W, l_mm = L equals plane with w = W, l = L
    rel(
        "trace_eq_plane",
        trace_res(**{**full, "w1_mm": w1, "w2_mm": w1}),
        plane_res(**pk),
    )
    stats.cls("checked")
    if w1 != w2 and temp != 20.0 and tcr != TCR:
        stats.nontriv(
            [w1, w2, l, t, rho, temp, tcr],
            sample={"args": full, "trace_res": r, "plane_res(w=w1)": rp},
        )


def streams(tier, avoid):
    return [
        Stream(
            "formulas",
            body,
            strategy=_case(),
            n={"quick": 8000, "thorough": 100000},
        )
    ]
