"""Seeding, Hypothesis wrapping, sharding, shrinking -> replay, evidence, known findings.

Every property module (vlib/props/cXX.py) exposes

    ID, LEVEL ("exploration" | "fault_enumeration"), RULE (text), ASSUMPTIONS (list)
    streams(tier, avoid) -> [Stream, ...]
    PROBES = {finding_id: callable() -> str|None}   (optional; returns the failure text
                                                     if the known finding reproduces)

A Stream is one generated-input search: a Hypothesis strategy (or a finite iterable for
exhaustive axes) plus a body(case, stats) that raises Fail on a violation.  The runner
owns all randomness: each stream is run under @seed(f(VERIF_SEED, shard, stream)) with
database=None, deadline=None; nothing reads the clock or another RNG inside a body.
"""

from __future__ import annotations

import collections
import hashlib
import json
import math
import multiprocessing
import os
import sys
import time
import traceback

HERE = os.path.dirname(os.path.dirname(os.path.abspath(__file__)))


# --------------------------------------------------------------------------------------
# Failure / statistics objects
# --------------------------------------------------------------------------------------
class Fail(Exception):
    """A property violation found by an oracle.

    sig: short stable identifier of the assertion (used to bucket root causes and to
         match known findings); msg: human readable; detail: JSON-able extra data.
    """

    def __init__(self, sig, msg, detail=None):
        super().__init__("{}: {}".format(sig, msg))
        self.sig = sig
        self.msg = msg
        self.detail = detail


class Skip(Exception):
    """Case is outside the property's domain (counted under its reason, not a pass)."""

    def __init__(self, reason):
        super().__init__(reason)
        self.reason = reason


class HarnessError(Exception):
    """Something is wrong with the machinery itself (exit 2, never a VIOLATION)."""


def jhash(obj):
    return hashlib.sha1(
        json.dumps(obj, sort_keys=True, default=_jdefault).encode()
    ).hexdigest()[:16]


def _jdefault(o):
    try:
        import numpy as np

        if isinstance(o, (np.floating,)):
            return float(o)
        if isinstance(o, (np.integer,)):
            return int(o)
        if isinstance(o, np.ndarray):
            return o.tolist()
        if isinstance(o, (np.bool_,)):
            return bool(o)
    except Exception:
        pass
    if isinstance(o, (set, frozenset)):
        return sorted(o)
    if isinstance(o, tuple):
        return list(o)
    return repr(o)


def jclean(obj):
    """Round-trip through JSON so the object is plain data."""
    return json.loads(json.dumps(obj, default=_jdefault))


class Stats:
    """Per-run measurements of what the generator actually produced."""

    def __init__(self):
        self.evaluations = 0
        self.classes = collections.Counter()
        self.nontrivial = set()  # hashes of distinct non-trivial cases
        self.samples = []  # a few actual cases
        self.excluded = collections.Counter()
        self.skipped = collections.Counter()
        self.max_samples = 4
        self._in_shrink = False

    def cls(self, name, n=1):
        self.classes[name] += n

    def nontriv(self, case_or_hash, sample=None):
        h = case_or_hash if isinstance(case_or_hash, str) else jhash(case_or_hash)
        new = h not in self.nontrivial
        self.nontrivial.add(h)
        if new and sample is not None and len(self.samples) < self.max_samples:
            self.samples.append(jclean(sample))

    def sample(self, sample):
        if len(self.samples) < self.max_samples:
            self.samples.append(jclean(sample))

    def merge(self, other):
        self.evaluations += other.evaluations
        self.classes.update(other.classes)
        self.nontrivial |= other.nontrivial
        self.excluded.update(other.excluded)
        self.skipped.update(other.skipped)
        for s in other.samples:
            if len(self.samples) < self.max_samples:
                self.samples.append(s)

    def to_plain(self):
        return {
            "evaluations": self.evaluations,
            "classes": dict(self.classes),
            "nontrivial": sorted(self.nontrivial),
            "samples": self.samples,
            "excluded": dict(self.excluded),
            "skipped": dict(self.skipped),
        }

    @classmethod
    def from_plain(cls, d):
        s = cls()
        s.evaluations = d["evaluations"]
        s.classes = collections.Counter(d["classes"])
        s.nontrivial = set(d["nontrivial"])
        s.samples = d["samples"]
        s.excluded = collections.Counter(d["excluded"])
        s.skipped = collections.Counter(d["skipped"])
        return s


class Stream:
    """One generated-input search.

    strategy: Hypothesis strategy producing JSON-able cases, or None when `cases` (a
              finite list, enumerated exhaustively and sharded) is given.
    body(case, stats): raises Fail on violation, Skip when out of domain.
    n: dict tier -> number of examples per shard (ignored for `cases`).
    """

    def __init__(
        self,
        name,
        body,
        *,
        strategy=None,
        cases=None,
        n=None,
        shrink=True,
        machine=None,
        steps=None,
        reduce=None,
    ):
        self.name = name
        self.body = body
        self.strategy = strategy
        self.cases = cases
        self.n = n or {"quick": 200, "thorough": 2000}
        self.shrink = shrink
        self.reduce = reduce  # case -> iterable of smaller candidate cases (optional)
        self.machine = machine  # factory(stats, record) -> RuleBasedStateMachine subclass
        self.steps = steps or {"quick": 20, "thorough": 40}


# --------------------------------------------------------------------------------------
# Running one stream in one process
# --------------------------------------------------------------------------------------
def _stream_seed(seed, shard, name):
    h = int(hashlib.sha1(name.encode()).hexdigest()[:6], 16)
    return (int(seed) * 1000003 + shard * 7919 + h) % (2**31 - 1)


def run_stream(stream, tier, seed, shard, nshards, scale=1.0):
    """Returns (stats, failure or None); failure = dict(stream, sig, msg, detail, case)."""
    import hypothesis
    from hypothesis import HealthCheck, Phase, given, settings

    stats = Stats()
    last = {}

    def guarded(case):
        stats.evaluations += 1
        try:
            stream.body(case, stats)
        except Skip as s:
            stats.skipped[s.reason] += 1
        except Fail as f:
            last["case"] = case
            last["fail"] = f
            raise

    if stream.cases is not None:
        cases = stream.cases
        for k, case in enumerate(cases):
            if k % nshards != shard:
                continue
            try:
                guarded(case)
            except Fail as f:
                return stats, _failrec(stream, f, case)
        return stats, None

    n = max(1, int(stream.n[tier] * scale))
    phases = [Phase.explicit, Phase.generate]
    noshrink = bool(os.environ.get("VERIF_NOSHRINK"))  # sensitivity runs: caught/missed only
    if stream.shrink and not noshrink:
        phases.append(Phase.shrink)
    sett = settings(
        max_examples=n,
        database=None,
        deadline=None,
        derandomize=False,
        report_multiple_bugs=False,
        phases=phases,
        suppress_health_check=list(HealthCheck),
        print_blob=False,
        stateful_step_count=stream.steps[tier],
    )
    sd = _stream_seed(seed, shard, stream.name)

    if stream.machine is not None:
        from hypothesis.stateful import run_state_machine_as_test

        Machine = stream.machine(stats, last)
        Machine = hypothesis.seed(sd)(Machine)
        try:
            run_state_machine_as_test(Machine, settings=sett)
        except Fail as f:
            f = last.get("fail", f)
            case = last.get("case")
            if stream.reduce is not None and case is not None and not noshrink:
                case, f = _reduce(stream, case, f)
            return stats, _failrec(stream, f, case)
        return stats, None

    test = hypothesis.seed(sd)(sett(given(stream.strategy)(guarded)))
    try:
        test()
    except Fail as f:
        f = last.get("fail", f)
        case = last.get("case")
        if stream.reduce is not None and not noshrink:
            case, f = _reduce(stream, case, f)
        return stats, _failrec(stream, f, case)
    return stats, None


def _reduce(stream, case, fail, budget=400):
    """Greedy structural minimisation after Hypothesis' own shrinking: keep a smaller
    candidate whenever it still fails with the same signature."""
    case = jclean(case)
    progress = True
    while progress and budget > 0:
        progress = False
        for cand in stream.reduce(case):
            budget -= 1
            if budget <= 0:
                break
            try:
                stream.body(cand, Stats())
            except Fail as f2:
                if f2.sig == fail.sig:
                    case, fail, progress = jclean(cand), f2, True
                    break
            except Exception:
                continue
    return case, fail


def _failrec(stream, f, case):
    return {
        "stream": stream.name,
        "sig": f.sig,
        "msg": f.msg,
        "detail": jclean(f.detail),
        "case": jclean(case),
    }


# --------------------------------------------------------------------------------------
# Sharded execution of all streams of a property
# --------------------------------------------------------------------------------------
def _worker(args):
    pid, tier, seed, shard, nshards, avoid, scale, only = args
    try:
        _prepare_env()
        mod = load_prop(pid)
        out = []
        for stream in mod.streams(tier, avoid):
            if only and stream.name not in only:
                continue
            t0 = time.time()
            stats, failure = run_stream(stream, tier, seed, shard, nshards, scale)
            out.append((stream.name, stats.to_plain(), failure, time.time() - t0))
        return ("ok", out)
    except BaseException:
        return ("error", traceback.format_exc())


def _prepare_env():
    os.environ.setdefault("MPLBACKEND", "Agg")
    os.environ.setdefault("TQDM_DISABLE", "1")
    import warnings

    warnings.filterwarnings("ignore")
    src = os.environ.get("SYSLOSS_SRC", "/repo/src")
    if src not in sys.path:
        sys.path.insert(0, src)
    import sysloss

    real = os.path.realpath(sysloss.__file__)
    if not real.startswith(os.path.realpath(src) + os.sep):
        raise HarnessError(
            "sysloss imported from {} instead of {}".format(real, src)
        )


def load_prop(pid):
    import importlib

    return importlib.import_module("vlib.props." + pid.lower())


def load_known():
    with open(os.path.join(HERE, "known_findings.json")) as f:
        return json.load(f)


def known_for(pid, known=None):
    known = known or load_known()
    return [
        k for k in known["findings"] if k["status"] == "known" and pid in k["properties"]
    ]


def run_property(pid, tier, seed, nshards=None, scale=1.0, only=None):
    """Run all streams of a property. Returns exit code."""
    t0 = time.time()
    _prepare_env()
    mod = load_prop(pid)
    known = known_for(pid)
    # generators exclude the trigger of every known finding, whichever property lists it
    avoid = sorted({k["id"] for k in load_known()["findings"] if k["status"] == "known"})
    if nshards is None:
        nshards = 1 if tier == "quick" else min(16, os.cpu_count() or 1)
        nshards = int(os.environ.get("VERIF_SHARDS", nshards))
    jobs = [(pid, tier, seed, k, nshards, avoid, scale, only) for k in range(nshards)]
    if nshards == 1:
        results = [_worker(jobs[0])]
    else:
        ctx = multiprocessing.get_context("fork")
        with ctx.Pool(nshards) as pool:
            results = pool.map(_worker, jobs, chunksize=1)

    total = Stats()
    total.max_samples = 5
    per_stream = collections.OrderedDict()
    failures = []
    for status, payload in results:
        if status == "error":
            print("HARNESS ERROR in worker:\n" + payload, file=sys.stderr)
            return 2
        for name, plain, failure, wall in payload:
            st = Stats.from_plain(plain)
            total.merge(st)
            ps = per_stream.setdefault(
                name, {"evaluations": 0, "distinct_nontrivial": set(), "wall_s": 0.0}
            )
            ps["evaluations"] += st.evaluations
            ps["distinct_nontrivial"] |= st.nontrivial
            ps["wall_s"] += wall
            if failure:
                failures.append(failure)

    # replay tier: committed shrunk cases of earlier failures (regressions)
    regress = run_regressions(pid, mod, avoid, total)
    failures.extend(regress)

    # known findings: probes
    kf_lines = []
    probes = getattr(mod, "PROBES", {})
    for k in known:
        probe = probes.get(k["id"])
        txt = None
        if probe is not None:
            try:
                txt = probe()
            except Exception:
                print("HARNESS ERROR in probe:\n" + traceback.format_exc(), file=sys.stderr)
                return 2
        if probe is None:
            continue
        if txt:
            kf_lines.append(
                "KNOWN-FINDING: property={} {} [{}] {}".format(pid, k["id"], k["what"], txt)
            )
        else:
            print(
                "note: known finding {} no longer reproduces for {} (entry can be "
                "turned into 'fixed')".format(k["id"], pid)
            )
    for line in kf_lines:
        print(line)

    # distinct root causes by signature
    by_sig = collections.OrderedDict()
    for f in failures:
        by_sig.setdefault((f["stream"], f["sig"]), f)
    replays = []
    for (sname, sig), f in by_sig.items():
        path = write_replay(pid, f)
        replays.append(path)
        print("VIOLATION property={} replay={}".format(pid, path))
        print("  stream={} sig={} :: {}".format(sname, sig, f["msg"][:600]))

    write_evidence(
        pid, mod, tier, seed, total, per_stream, len(by_sig), time.time() - t0, kf_lines,
        nshards,
    )
    nt = len(total.nontrivial)
    print(
        "{} tier={} seed={} shards={} evaluations={} distinct_nontrivial={} "
        "violations={} wall={:.1f}s".format(
            pid, tier, seed, nshards, total.evaluations, nt, len(by_sig), time.time() - t0
        )
    )
    if by_sig:
        return 1
    if total.evaluations == 0 or nt < 2:
        print(
            "HARNESS ERROR: vacuous run (evaluations={}, nontrivial={})".format(
                total.evaluations, nt
            ),
            file=sys.stderr,
        )
        return 2
    return 0


def run_regressions(pid, mod, avoid, total):
    """Re-run committed replay files under replays/<ID>/regress/ (seconds-long tier)."""
    d = os.path.join(HERE, "replays", pid, "regress")
    out = []
    if not os.path.isdir(d):
        return out
    streams = {s.name: s for s in mod.streams("quick", avoid)}
    for fn in sorted(os.listdir(d)):
        if not fn.endswith(".json"):
            continue
        with open(os.path.join(d, fn)) as f:
            rec = json.load(f)
        s = streams.get(rec["stream"])
        if s is None:
            continue
        st = Stats()
        try:
            s.body(rec["case"], st)
        except Skip:
            pass
        except Fail as f:
            out.append(_failrec(s, f, rec["case"]))
        total.classes["regression_replayed"] += 1
    return out


def _out_root():
    """Runs against a scratch copy of the library (SYSLOSS_SRC: sensitivity experiments) must
    not overwrite the evidence / replays of the real tree."""
    if os.environ.get("SYSLOSS_SRC"):
        return os.path.join(HERE, "scratch", "mut")
    return HERE


def write_replay(pid, failure):
    d = os.path.join(_out_root(), "replays", pid)
    os.makedirs(d, exist_ok=True)
    rec = dict(failure)
    rec["property"] = pid
    h = jhash([rec["stream"], rec["sig"], rec["case"]])
    path = os.path.join(d, "{}.json".format(h))
    with open(path, "w") as f:
        json.dump(rec, f, indent=1, default=_jdefault)
    return os.path.relpath(path, HERE)


def replay_file(pid, path):
    _prepare_env()
    mod = load_prop(pid)
    with open(path) as f:
        rec = json.load(f)
    avoid = sorted({k["id"] for k in load_known()["findings"] if k["status"] == "known"})
    streams = {s.name: s for s in mod.streams("quick", avoid)}
    s = streams.get(rec["stream"])
    if s is None:
        print("unknown stream {!r} in replay".format(rec["stream"]), file=sys.stderr)
        return 2
    if s.machine is not None:
        body = s.body
    else:
        body = s.body
    st = Stats()
    try:
        body(rec["case"], st)
    except Skip as sk:
        print("replay: case skipped ({})".format(sk.reason))
        return 0
    except Fail as f:
        print("VIOLATION property={} replay={}".format(pid, path))
        print("  sig={} :: {}".format(f.sig, f.msg[:2000]))
        return 1
    print("replay: property {} holds on {}".format(pid, path))
    return 0


def write_evidence(pid, mod, tier, seed, total, per_stream, nviol, wall, kf_lines, nshards):
    d = os.path.join(_out_root(), "evidence")
    os.makedirs(d, exist_ok=True)
    streams = {}
    exhaustive = False
    for name, ps in per_stream.items():
        streams[name] = {
            "evaluations": ps["evaluations"],
            "distinct_nontrivial": len(ps["distinct_nontrivial"]),
            "wall_s": round(ps["wall_s"], 2),
        }
    ev = {
        "property_id": pid,
        "tier": tier,
        "seed": int(seed),
        "level": mod.LEVEL,
        "coverage": {
            "evaluations": total.evaluations,
            "distinct_nontrivial": len(total.nontrivial),
            "rule": mod.RULE,
            "samples": total.samples[:5],
            "classes": dict(sorted(total.classes.items())),
            "streams": streams,
            "skipped_out_of_domain": dict(total.skipped),
            "excluded_by_construction": dict(total.excluded),
            "known_findings_reproduced": kf_lines,
            "shards": nshards,
            "exhaustive": bool(getattr(mod, "EXHAUSTIVE", False)),
        },
        "assumptions": list(getattr(mod, "ASSUMPTIONS", [])),
        "wall_s": round(wall, 2),
        "violations": nviol,
    }
    with open(os.path.join(d, "{}.json".format(pid)), "w") as f:
        json.dump(ev, f, indent=1, default=_jdefault)


# --------------------------------------------------------------------------------------
# numeric helpers shared by oracles
# --------------------------------------------------------------------------------------
def close(a, b, rel=1e-9, abs_=1e-12):
    if a == b:
        return True
    if isinstance(a, str) or isinstance(b, str):
        return False
    if math.isnan(a) or math.isnan(b):
        return False
    return abs(a - b) <= abs_ + rel * max(abs(a), abs(b))
