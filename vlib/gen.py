"""Hypothesis strategies producing system specs (by construction, not rejection).

Parameters are drawn through a *nominal operating point*: nominal voltages flow
root->leaf, nominal currents leaf->root, and every series element gets a drawn
drop fraction f of its nominal input voltage (rs = f*V/I, vdrop = f*V).  The knob
f_max selects the regime: <= 0.10 "modest" (a steady state exists and the sweep
converges), up to 3.0 "overloaded" (C03).
"""

import math

from hypothesis import strategies as st

from vlib import spec as S

NAME_POOL = {
    "Source": ["Vbat", "12V in", "USB_5V", "LiPo 3.7V", "-48V bus", "Vin"],
    "Converter": ["Buck", "Boost 5V", "DC-DC", "Buck 1.8V", "SMPS"],
    "LinReg": ["LDO", "LDO 3.3V", "Vreg+", "Reg", "System LDO"],
    "PLoad": ["MCU", "FPGA core", "Radio", "P.load"],
    "ILoad": ["Sensor", "LED", "IO bank", "I-load", "Subsystem ctl", "System monitor"],
    "RLoad": ["Heater", "Pull-up", "R.load", "Bleeder"],
    "RLoss": ["Trace", "Cable", "R_sense", "Shunt"],
    "VLoss": ["Diode", "Fuse", "Ferrite", "V-loss"],
    "PSwitch": ["Load switch", "eFuse", "SW", "HS-switch"],
    "PMux": ["Power mux", "OR-ing", "PMUX"],
    "Rectifier": ["Bridge", "Rect.", "FWB"],
}
SEPS = ["", " ", "_", ".", "-", "+", " #"]
GROUPS = ["Main", "RF part", "G.3", "IO", "Main 2"]
PHASE_NAMES = ["sleep", "active", "tx", "rx burst", "idle", "move", "{boost}", "burst {1 s}"]
SRC_VOLT = [3.3, 5.0, 12.0, 24.0, 48.0, 1.8, 3.7, 230.0]


def logf(lo, hi):
    return st.floats(math.log10(lo), math.log10(hi), allow_nan=False).map(
        lambda e: 10.0 ** e)


class Opts:
    """Generation options (all have defaults; see systems())."""

    def __init__(self, **kw):
        self.min_nodes = 2
        self.max_nodes = 10
        self.max_sources = 3
        self.kinds = list(S.KINDS[1:])  # non-source kinds available
        self.mux = True
        self.f_max = 0.10
        self.tables = True
        self.table_min_step = 0.05
        self.negative = True
        self.zero_source = False
        self.thermal = False
        self.loss_flag = True
        self.sleep = True  # iq / iis / ig / pwrs non-zero
        self.limits = False
        self.groups = False
        self.rails = False
        self.rail_refs = False  # address parents by rail name sometimes
        self.phases = False
        self.phase_f = 0.5  # f_max is multiplied by this when phases scale load values
        self.zero_loads = True
        self.odd_phase_conf = False  # unknown phase names in configurations, phases defined
        #                              last, or (drop_sys_phases) not defined at all
        self.drop_sys_phases = False
        self.source_rs = True  # False: every Source gets rs = 0
        self.similar_sources = False  # all sources within x0.8..1.25 of the first one
        self.leaf_loads = True
        self.neg_axes = False  # one table in six written with negative breakpoints
        self.zero_duration = False  # one phase (never all) may last exactly 0 s
        self.mux_focus = False  # a PMux in most systems, >= 2 inputs, 2-D ig table, and the
        #                         first declared input often a dead source
        self.avoid = ()
        for k, v in kw.items():
            if not hasattr(self, k):
                raise TypeError(k)
            setattr(self, k, v)


@st.composite
def systems(draw, opts=None, **kw):
    o = opts or Opts(**kw)
    return _Gen(draw, o).make()


class _Gen:
    def __init__(self, draw, o):
        self.draw = draw
        self.o = o
        self.nodes = []
        self.excluded = {}

    # ---- small draws -----------------------------------------------------------------
    def name(self, kind, idx):
        pool = NAME_POOL[kind]
        k = self.draw(st.integers(0, len(pool) * len(SEPS) - 1))
        return pool[k % len(pool)] + SEPS[k // len(pool)] + str(idx)

    def chance(self, num, den):
        return self.draw(st.integers(0, den - 1)) < num

    def frac(self, hi=None):
        hi = self.o.f_max if hi is None else hi
        return self.draw(st.floats(0.0, hi, allow_nan=False))

    def small(self, ref, lo=1e-4, hi=0.05):
        """A small current relative to ref (sleep / ground / quiescent currents)."""
        if not self.o.sleep or self.chance(1, 4):
            return 0.0
        base = ref if ref > 0 else 1e-3
        val = base * self.draw(logf(lo, hi))
        if "F18" in self.o.avoid and val < 1e-7:
            # known finding F18: currents at or below numpy's default atol (1e-8 A)
            self.excluded["F18_current_below_1e-7"] = self.excluded.get(
                "F18_current_below_1e-7", 0) + 1
            val = 1e-7
        return val

    # ---- structure -------------------------------------------------------------------
    def make(self):
        o, draw = self.o, self.draw
        nsrc = draw(st.integers(1, o.max_sources))
        nn = draw(st.integers(o.min_nodes, o.max_nodes))
        for i in range(nsrc):
            self.nodes.append(self._blank("Source", i, []))
        have_mux = False
        kinds = [k for k in o.kinds if k != "PMux"]
        idx = nsrc
        for _ in range(nn):
            cands = [n for n in self.nodes if n["kind"] not in S.LOADS]
            want_mux = (o.mux and "PMux" in o.kinds and not have_mux
                        and self.chance(3 if o.mux_focus else 1, 6))
            if want_mux:
                kmax = min(4, len(cands))
                k = draw(st.integers(min(2, kmax) if o.mux_focus else 1, kmax))
                picks = draw(st.lists(st.integers(0, len(cands) - 1), min_size=k,
                                      max_size=k, unique=True))
                parents = [cands[j]["name"] for j in picks]
                self.nodes.append(self._blank("PMux", idx, parents))
                have_mux = True
            else:
                kind = draw(st.sampled_from(kinds))
                mode = draw(st.integers(0, 2))
                if mode == 2:
                    par = cands[-1]
                else:
                    par = cands[draw(st.integers(0, len(cands) - 1))]
                self.nodes.append(self._blank(kind, idx, [par["name"]]))
            idx += 1
        if o.leaf_loads:
            ch = S.children_map({"nodes": self.nodes})
            loadkinds = [k for k in o.kinds if k in S.LOADS]
            if loadkinds:
                for n in list(self.nodes):
                    if n["kind"] not in S.LOADS and not ch[n["name"]] and self.chance(3, 4):
                        kind = draw(st.sampled_from(loadkinds))
                        self.nodes.append(self._blank(kind, idx, [n["name"]]))
                        idx += 1
        spec = {"name": "Sys " + str(draw(st.integers(0, 99))), "phases": {},
                "nodes": self.nodes}
        self._phases(spec)
        self._nominal(spec)
        self._decorate(spec)
        spec["_gen"] = {"excluded": self.excluded}
        return spec

    def _blank(self, kind, idx, parents):
        return {"name": self.name(kind, idx), "kind": kind, "params": {}, "limits": None,
                "parents": parents, "pref": ["name"] * len(parents), "group": "",
                "rail": "", "pconf": None}

    # ---- phases ----------------------------------------------------------------------
    def _phases(self, spec):
        o, draw = self.o, self.draw
        if not o.phases:
            return
        k = draw(st.integers(2, 4))
        start = draw(st.integers(0, len(PHASE_NAMES) - 1))
        names = [PHASE_NAMES[(start + j) % len(PHASE_NAMES)] for j in range(k)]
        # durations: all shorter than a second in total / ordinary / from a millisecond to
        # more than a day
        cls = draw(st.integers(0, 3))
        rng = {0: (1e-3, 0.2), 1: (0.1, 1e4), 2: (0.1, 1e4), 3: (1e-3, 1e6)}[cls]
        spec["phases"] = {nm: draw(logf(*rng)) for nm in names}
        if o.zero_duration and self.chance(1, 5):
            z = names[draw(st.integers(0, k - 1))]
            spec["phases"][z] = 0 if self.chance(1, 2) else 0.0
        self.phase_names = names

    def _subset(self, names, allow_empty=True):
        mask = self.draw(st.integers(0 if allow_empty else 1, 2 ** len(names) - 1))
        return [nm for j, nm in enumerate(names) if mask >> j & 1]

    # ---- nominal operating point -----------------------------------------------------
    def _nominal(self, spec):
        o, draw = self.o, self.draw
        nm = S.node_map(spec)
        ch = S.children_map(spec)
        fmax = o.f_max * (o.phase_f if spec["phases"] else 1.0)
        vin, vout, f = {}, {}, {}
        # top-down: voltages
        for n in spec["nodes"]:
            k, name = n["kind"], n["name"]
            if k == "Source":
                v = draw(st.one_of(st.sampled_from(SRC_VOLT), logf(0.8, 400.0)))
                if o.negative and self.chance(1, 4):
                    v = -v
                if o.similar_sources:
                    if not hasattr(self, "_v0"):
                        self._v0 = v
                    else:
                        v = self._v0 * draw(st.floats(0.8, 1.25))
                n["params"]["vo"] = v
                vin[name] = v
                f[name] = self.frac(fmax)
                # (overload regime: f may exceed 1; nominal voltages stay positive)
                vout[name] = v * max(1 - f[name], 0.05)
                continue
            vi = vout[n["parents"][0]]
            vin[name] = vi
            if k in S.LOADS:
                vout[name] = 0.0
            elif k == "Converter":
                vo = draw(st.one_of(st.sampled_from([1.2, 1.8, 3.3, 5.0, 12.0]),
                                    logf(0.6, 60.0)))
                if o.negative and self.chance(1, 6):
                    vo = -vo
                n["params"]["vo"] = vo
                vout[name] = vo
            elif k == "LinReg":
                a = abs(vi)
                if self.chance(1, 5):  # drop-out operation: vo above the input
                    vo = a * draw(st.floats(1.0, 1.5))
                    vd = a * self.frac(min(fmax * 2, 0.5))
                    vd = min(vd, 0.9 * vo)
                    out = a - vd
                else:
                    vo = a * draw(st.floats(0.2, 0.95))
                    vd = min(draw(st.floats(0.0, 0.5)) * (a - vo), 0.9 * vo)
                    out = min(vo, a - vd)
                if vi < 0 or (o.negative and self.chance(1, 10)):
                    vo, out = -vo, -out
                if vi < 0 and self.chance(1, 10):
                    vo, out = -vo, -out
                n["params"]["vo"] = vo
                n["params"]["vdrop"] = vd if not self.chance(1, 6) else 0.0
                if n["params"]["vdrop"] == 0.0:
                    out = math.copysign(min(abs(vo), a), vo)
                vout[name] = out
            else:  # RLoss VLoss PSwitch PMux Rectifier
                f[name] = self.frac(fmax)
                out = abs(vi) * max(1 - f[name], 0.05)
                vout[name] = out if (k == "Rectifier" or vi >= 0) else -out
        # loads: nominal currents
        iin, iout = {}, {}
        for n in reversed(spec["nodes"]):
            k, name, p = n["kind"], n["name"], n["params"]
            vi = abs(vin[name])
            if k in S.LOADS:
                if o.zero_loads and k != "RLoad" and self.chance(1, 12):
                    cur = 0.0
                else:
                    cur = draw(logf(1e-5, 2.0))
                if k == "PLoad":
                    p["pwr"] = cur * vi
                    if o.sleep and not self.chance(1, 3):
                        p["pwrs"] = p["pwr"] * draw(logf(1e-4, 0.3)) if cur else draw(
                            logf(1e-6, 1e-2))
                elif k == "ILoad":
                    p["ii"] = cur
                    if o.sleep and not self.chance(1, 3):
                        p["iis"] = cur * draw(logf(1e-4, 0.3)) if cur else draw(
                            logf(1e-7, 1e-3))
                else:
                    p["rs"] = vi / cur
                if o.loss_flag and self.chance(1, 4):
                    p["loss"] = True
                iin[name] = cur
                iout[name] = 0.0
                continue
            io = 0.0
            for c in ch[name]:
                cn = nm[c]
                if cn["kind"] == "PMux" and cn["parents"][0] != name:
                    continue
                io += iin[c]
            iout[name] = io
            if k == "Source":
                rs = f[name] * abs(vin[name]) / io if io > 0 else draw(logf(1e-3, 10.0))
                if not o.source_rs:
                    rs = 0.0
                if vin[name] < 0 and "F1" in o.avoid:
                    # known finding F1: negative source with rs > 0
                    if rs != 0.0:
                        self.excluded["F1_negative_source_rs"] = self.excluded.get(
                            "F1_negative_source_rs", 0) + 1
                    rs = 0.0
                if rs != 0.0 or self.chance(1, 2):
                    p["rs"] = rs
                iin[name] = io
            elif k == "RLoss":
                p["rs"] = f[name] * vi / io if io > 0 else draw(logf(1e-3, 10.0))
                iin[name] = io
            elif k == "VLoss":
                v0 = f[name] * vi
                p["vdrop"] = self._maybe_table("vdrop", v0, io, vi, 0.5, 1.4)
                iin[name] = io
            elif k == "Converter":
                eff0 = draw(st.floats(0.4, 1.0))
                p["eff"] = self._maybe_table("eff", eff0, io, vi, 0.75, 1.2, cap=1.0)
                if o.sleep:
                    iq = self.small(io if io > 0 else 1e-3)
                    if iq or self.chance(1, 2):
                        p["iq"] = iq
                    iis = self.small(io if io > 0 else 1e-3, 1e-5, 1e-2)
                    if iis or self.chance(1, 2):
                        p["iis"] = iis
                iin[name] = (abs(p["vo"]) * io / (vi * eff0)) if io > 0 else p.get("iq", 0.0)
            elif k in ("LinReg", "PSwitch", "PMux"):
                ig0 = self.small(io if io > 0 else 1e-3)
                if o.mux_focus and k == "PMux" and o.tables and not self.chance(1, 4):
                    if ig0 == 0.0:
                        ig0 = (io if io > 0 else 1e-3) * 0.01
                    p["ig"] = make_table(draw, "ig", ig0, io, vi, 0.3, 2.0, None,
                                         o.table_min_step,
                                         dims=(draw(st.integers(2, 4)), draw(st.integers(2, 5))))
                elif ig0 or self.chance(1, 2):
                    p["ig"] = self._maybe_table("ig", ig0, io, vi, 0.3, 2.0) if ig0 else 0.0
                if o.sleep:
                    iis = self.small(io if io > 0 else 1e-3, 1e-5, 1e-2)
                    if iis or self.chance(1, 2):
                        p["iis"] = iis
                if k == "PSwitch":
                    rs = f[name] * vi / io if io > 0 else draw(logf(1e-3, 10.0))
                    if rs or self.chance(1, 2):
                        p["rs"] = rs
                elif k == "PMux":
                    rs0 = f[name] * vi / io if io > 0 else draw(logf(1e-3, 10.0))
                    if self.chance(1, 2):
                        # per-input list: each input its own on-resistance
                        lst = []
                        for j, pn in enumerate(n["parents"]):
                            vj = abs(vout[pn])
                            fj = f[name] if j == 0 else self.frac(fmax)
                            lst.append(fj * vj / io if io > 0 else draw(logf(1e-3, 10.0)))
                        p["rs"] = lst
                    elif rs0 or self.chance(1, 2):
                        p["rs"] = rs0
                iin[name] = io + ig0
            elif k == "Rectifier":
                if self.chance(1, 2) and f[name] > 0:
                    v0 = f[name] * vi / 2.0
                    p["vdrop"] = self._maybe_table("vdrop", v0, io, vi, 0.5, 1.4)
                    iin[name] = io
                else:
                    rs = f[name] * vi / io / 2.0 if io > 0 else draw(logf(1e-3, 10.0))
                    if self.chance(1, 3):
                        p["vdrop"] = 0.0
                    if rs or self.chance(1, 2):
                        p["rs"] = rs
                    ig0 = self.small(io if io > 0 else 1e-3)
                    if ig0 or self.chance(1, 2):
                        p["ig"] = self._maybe_table("ig", ig0, io, vi, 0.3, 2.0) if ig0 else 0.0
                    if o.sleep:
                        iq = self.small(io if io > 0 else 1e-3)
                        if iq or self.chance(1, 2):
                            p["iq"] = iq
                    iin[name] = io + ig0 if io > 0 else p.get("iq", 0.0)
            if o.thermal and k != "Source" and self.chance(2, 3):
                p["rt"] = draw(logf(0.1, 200.0))
        for n in spec["nodes"]:
            if o.thermal and n["kind"] in S.LOADS and self.chance(2, 3):
                n["params"]["rt"] = draw(logf(0.1, 200.0))
        self.nom = {"vin": vin, "vout": vout, "iin": iin, "iout": iout}
        spec["_nominal"] = {k: dict(v) for k, v in self.nom.items()}

    def _maybe_table(self, zkey, v0, io, vi, lo, hi, cap=None):
        """A scalar, or (o.tables) a 1-D/2-D table whose values scatter around v0 and whose
        axes are placed around the nominal point (io, vi)."""
        o, draw = self.o, self.draw
        if not o.tables or v0 == 0.0 or not self.chance(1, 3):
            return v0
        t = make_table(draw, zkey, v0, io, vi, lo, hi, cap, o.table_min_step)
        if o.neg_axes and self.chance(1, 6):
            # the same table from a sink's point of view: strictly increasing as written
            t["io"] = [-x for x in reversed(t["io"])]
            t[zkey] = [list(reversed(r)) for r in t[zkey]]
            if self.chance(1, 2):
                t["vi"] = [-v for v in t["vi"]]
        return t

    # ---- decorations -----------------------------------------------------------------
    def _decorate(self, spec):
        o, draw = self.o, self.draw
        nodes = spec["nodes"]
        if o.zero_source:
            for n in nodes:
                if n["kind"] == "Source" and self.chance(1, 4):
                    n["params"]["vo"] = 0.0 if self.chance(1, 2) else -0.0
        if o.mux_focus:
            nm = S.node_map(spec)
            for n in nodes:
                if n["kind"] == "PMux" and len(n["parents"]) > 1 and self.chance(1, 2):
                    first = nm[n["parents"][0]]
                    if first["kind"] == "Source":
                        first["params"]["vo"] = 0.0
        if o.groups and self.chance(3, 4):
            for n in nodes:
                if self.chance(2, 3):
                    n["group"] = GROUPS[draw(st.integers(0, len(GROUPS) - 1))]
        if o.rails and self.chance(4, 5):
            for i, n in enumerate(nodes):
                if n["kind"] not in S.LOADS and self.chance(2, 3):
                    v = self.nom["vout"][n["name"]]
                    n["rail"] = "{:.3g}V rail{}{}".format(
                        abs(v), SEPS[draw(st.integers(0, len(SEPS) - 1))], i)
            if o.rail_refs:
                nm = S.node_map(spec)
                for n in nodes:
                    n["pref"] = [
                        "rail" if nm[p]["rail"] and self.chance(1, 2) else "name"
                        for p in n["parents"]]
        if o.limits:
            for n in nodes:
                if self.chance(1, 2):
                    n["limits"] = self._limits(n)
        if spec["phases"]:
            names = self.phase_names
            for n in nodes:
                k = n["kind"]
                if k in S.PHASE_LIST_KINDS:
                    r = draw(st.integers(0, 5))
                    if k == "Source" and r < 3:
                        continue
                    if r == 0:
                        continue
                    if r == 1:
                        n["pconf"] = []
                    else:
                        n["pconf"] = self._subset(names, allow_empty=False)
                elif k in S.LOADS:
                    r = draw(st.integers(0, 4))
                    if r == 0:
                        continue
                    if r == 1:
                        n["pconf"] = {}
                        continue
                    sub = self._subset(names, allow_empty=False)
                    main = {"PLoad": "pwr", "ILoad": "ii", "RLoad": "rs"}[k]
                    base = n["params"][main]
                    conf = {}
                    for ph in sub:
                        if k == "RLoad":
                            conf[ph] = base * draw(st.floats(0.7, 5.0))
                        elif base == 0.0:
                            conf[ph] = 0.0
                        else:
                            # exactly 0 or a sensible fraction (no denormal-sized loads: the
                            # converter law is discontinuous at io = 0)
                            conf[ph] = base * draw(st.one_of(st.just(0.0), st.floats(0.01, 1.5)))
                    n["pconf"] = conf
            if o.odd_phase_conf:
                # names that are not system phases may appear in a configuration (they never
                # match), and the system phases may be defined after the components' ones
                for n in nodes:
                    pc = n.get("pconf")
                    if pc and self.chance(1, 6):
                        if isinstance(pc, list):
                            n["pconf"] = (["ghost"] + pc) if self.chance(1, 2) else ["ghost"]
                        else:
                            keep = dict(pc) if self.chance(1, 2) else {}
                            keep["ghost"] = list(pc.values())[0]
                            n["pconf"] = keep
                if self.chance(1, 2):
                    spec["_phases_last"] = True
            if o.drop_sys_phases and self.chance(1, 5):
                # component configurations without system phases: solve() analyses phase ""
                spec["phases"] = {}

    def _limits(self, n):
        draw = self.draw
        lim = {}
        keys = S.LIMIT_KEYS
        mask = draw(st.integers(1, 2 ** len(keys) - 1))
        for j, k in enumerate(keys):
            if mask >> j & 1:
                lo = draw(st.one_of(st.just(0.0), logf(1e-6, 10.0)))
                hi = lo + draw(logf(1e-6, 1e3))
                if k == "tp":
                    # signed comparison: bounds of either sign, and exactly 0 degrees
                    lo = draw(st.one_of(st.floats(-60.0, 20.0), st.sampled_from([0.0, 0, -40.0])))
                    hi = draw(st.one_of(st.floats(30.0, 200.0), st.sampled_from([0.0, 85.0])))
                    if hi < lo:
                        lo, hi = hi, lo
                if draw(st.integers(0, 7)) == 5:
                    hi = float("inf")  # an unbounded upper limit
                lim[k] = [lo, hi]
        return lim


def make_axis(draw, npts, nominal, min_step):
    """Strictly increasing non-negative axis with npts points; every step is at least
    min_step * (largest coordinate).  The nominal value is placed inside the axis range
    (4/6), above it (1/6) or below it (1/6)."""
    steps = [draw(st.floats(min_step * npts * 1.05, 1.0)) for _ in range(npts)]
    if npts > 1 and draw(st.integers(0, 2)) == 0:
        steps[0] = 0.0  # axis starting at zero
    pos, acc = [], 0.0
    for s in steps:
        acc += s
        pos.append(acc)
    q0 = pos[0] / pos[-1]
    place = draw(st.integers(0, 5))
    u = draw(st.floats(0.0, 1.0))
    if place == 0:
        t = 1.0 + 0.5 * u + 1e-3
    elif place == 1 and q0 > 0:
        t = q0 * (0.3 + 0.69 * u)
    else:
        t = q0 + u * (1.0 - q0)
    t = max(t, 1e-3)
    top = (nominal / t) if nominal > 0 else draw(logf(1e-3, 10.0))
    scale = top / pos[-1]
    axis = [p * scale for p in pos]
    # guard against float collapse
    for a, b in zip(axis, axis[1:]):
        if not b > a:
            return [top * (j + 1) / npts for j in range(npts)]
    return axis


def make_table(draw, zkey, v0, io, vi, lo, hi, cap=None, min_step=0.05, dims=None):
    if dims is None:
        two_d = draw(st.integers(0, 1)) == 1
        ni = draw(st.integers(1, 5)) if not two_d else draw(st.integers(2, 5))
        ni = max(ni, draw(st.integers(1, 3)))
        nv = 1 if not two_d else draw(st.integers(2, 4))
    else:
        nv, ni = dims
    ios = make_axis(draw, ni, io, min_step)
    if nv == 1:
        vis = [vi if vi > 0 else 1.0]
    else:
        vis = make_axis(draw, nv, vi, min_step)
        if vis[0] == 0.0:
            vis[0] = vis[1] * 0.5 if len(vis) > 1 else 1.0
    if nv > 1:
        # keep the table well-conditioned in the property's sense (every axis step at
        # least 1e-4 of the largest coordinate; 5e-4 here for margin): else fall back to 1-D
        big = max(ios[-1], vis[-1])
        io_min = min(b - a for a, b in zip(ios, ios[1:]))
        if io_min < 5.5e-4 * big:
            # currents are small against the voltages: stretch the io axis (the operating
            # point then sits in the first io cell) instead of giving up the 2-D table
            fac = 5.5e-4 * big / io_min
            ios = [x * fac for x in ios]
            big = max(ios[-1], vis[-1])
        st_min = min([b - a for a, b in zip(ios, ios[1:])] + [b - a for a, b in zip(vis, vis[1:])])
        if st_min < 5e-4 * big:
            nv = 1
            vis = [vi if vi > 0 else 1.0]
    rows = []
    for _ in range(nv):
        row = []
        for _ in range(ni):
            v = v0 * draw(st.floats(lo, hi))
            if cap is not None:
                v = min(v, cap)
            row.append(v)
        rows.append(row)
    return {"vi": vis, "io": ios, zkey: rows}


def topo_order_from_priority(spec, prio):
    """A topological insertion order (first node a Source) chosen by priorities."""
    nodes = spec["nodes"]
    placed, order = set(), []
    remaining = list(range(len(nodes)))
    while remaining:
        avail = [i for i in remaining if all(p in placed for p in nodes[i]["parents"])]
        if not order:
            avail = [i for i in avail if nodes[i]["kind"] == "Source"]
        best = min(avail, key=lambda i: prio[i])
        order.append(best)
        placed.add(nodes[best]["name"])
        remaining.remove(best)
    return order


@st.composite
def system_with_order(draw, opts):
    spec = draw(systems(opts))
    prio = draw(st.permutations(list(range(len(spec["nodes"])))))
    return {"spec": spec, "order": topo_order_from_priority(spec, prio)}
