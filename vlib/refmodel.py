"""Independent reference model of the documented component laws.

Written from the class docstrings and the property statements, not from the code:
own table interpolation (1-D linear with clamping; 2-D: both triangulations of a
rectangular cell), own phase semantics, own dead-rail rule, own steady-state solver.
"""

import bisect
import math

from vlib import spec as S


# --------------------------------------------------------------------------------------
# Tabulated parameters
# --------------------------------------------------------------------------------------
def _lin(x, xs, ys):
    """1-D piecewise linear through (xs, ys), clamped outside; xs strictly increasing."""
    if x <= xs[0]:
        return ys[0]
    if x >= xs[-1]:
        return ys[-1]
    j = bisect.bisect_right(xs, x)
    x0, x1 = xs[j - 1], xs[j]
    if x == x0:
        return ys[j - 1]
    t = (x - x0) / (x1 - x0)
    return ys[j - 1] + t * (ys[j] - ys[j - 1])


def table_eval(tab, zkey, io, vi):
    """Value(s) of a tabulated parameter at (io, vi): returns (candidates, where, lo, hi).

    candidates: list of acceptable values (1 entry where the documented semantics are
    unique: grid point, grid line, outside; 2 entries inside a 2-D cell, one per
    triangulation of the cell).  lo/hi: range of the enclosing cell's corner values.
    where: 'grid' | 'line' | 'interior' | 'outside' | '1d-...'
    """
    io = abs(io)
    vi = abs(vi)
    xs = [abs(float(x)) for x in tab["io"]]
    z = [[abs(float(v)) for v in row] for row in tab[zkey]]
    if any(b < a for a, b in zip(xs, xs[1:])):
        # an io axis written with negative numbers is strictly increasing as written and
        # decreasing in magnitude: the table is the same table mirrored
        colorder = sorted(range(len(xs)), key=lambda k: xs[k])
        xs = [xs[k] for k in colorder]
        z = [[row[k] for k in colorder] for row in z]
    if len(tab["vi"]) == 1:
        ys = z[0]
        val = _lin(io, xs, ys)
        if io < xs[0] or io > xs[-1]:
            where = "1d-outside"
        elif io in xs:
            where = "1d-grid"
        else:
            where = "1d-line"
        j = min(max(bisect.bisect_right(xs, io), 1), len(xs) - 1) if len(xs) > 1 else 0
        if len(xs) > 1:
            lo, hi = min(ys[j - 1], ys[j]), max(ys[j - 1], ys[j])
        else:
            lo = hi = ys[0]
        return [val], where, min(lo, val), max(hi, val)
    vs = [abs(float(v)) for v in tab["vi"]]
    order = sorted(range(len(vs)), key=lambda k: vs[k])
    vs = [vs[k] for k in order]
    z = [z[k] for k in order]
    outside = io < xs[0] or io > xs[-1] or vi < vs[0] or vi > vs[-1]
    x = min(max(io, xs[0]), xs[-1])
    y = min(max(vi, vs[0]), vs[-1])
    # cell indices
    c1 = min(max(bisect.bisect_right(xs, x), 1), len(xs) - 1)
    r1 = min(max(bisect.bisect_right(vs, y), 1), len(vs) - 1)
    c0, r0 = c1 - 1, r1 - 1
    x0, x1, y0, y1 = xs[c0], xs[c1], vs[r0], vs[r1]
    z00, z01, z10, z11 = z[r0][c0], z[r0][c1], z[r1][c0], z[r1][c1]
    u = (x - x0) / (x1 - x0)
    w = (y - y0) / (y1 - y0)
    lo, hi = min(z00, z01, z10, z11), max(z00, z01, z10, z11)
    on_x = x in (x0, x1)
    on_y = y in (y0, y1)
    if on_x and on_y:
        val = z[r0 if y == y0 else r1][c0 if x == x0 else c1]
        return [val], ("outside" if outside else "grid"), lo, hi
    if on_y:
        row = z[r0] if y == y0 else z[r1]
        val = row[c0] + u * (row[c1] - row[c0])
        return [val], ("outside" if outside else "line"), lo, hi
    if on_x:
        a, b = (z00, z10) if x == x0 else (z01, z11)
        val = a + w * (b - a)
        return [val], ("outside" if outside else "line"), lo, hi
    # interior: two triangulations of the rectangle
    if u >= w:
        va = z00 + u * (z01 - z00) + w * (z11 - z01)
    else:
        va = z00 + w * (z10 - z00) + u * (z11 - z10)
    if u + w <= 1.0:
        vb = z00 + u * (z01 - z00) + w * (z10 - z00)
    else:
        vb = z11 + (1.0 - u) * (z10 - z11) + (1.0 - w) * (z01 - z11)
    return [va, vb], ("outside" if outside else "interior"), lo, hi


def pval(p, zkey, io, vi, mode=0):
    """Magnitude of a (possibly tabulated) parameter; mode selects the triangulation."""
    if isinstance(p, dict):
        c = table_eval(p, zkey, io, vi)[0]
        return c[mode % len(c)]
    return abs(p)


# --------------------------------------------------------------------------------------
# Phase behaviour
# --------------------------------------------------------------------------------------
def load_value(node, phase):
    """Value a load uses in `phase`: table entry, else sleep value, else constructor value."""
    p = node["params"]
    pc = node.get("pconf")
    k = node["kind"]
    main = {"PLoad": "pwr", "ILoad": "ii", "RLoad": "rs"}[k]
    if not pc:
        return abs(p[main])
    if phase in pc:
        return abs(pc[phase])
    if k == "PLoad":
        return abs(p.get("pwrs", 0.0))
    if k == "ILoad":
        return abs(p.get("iis", 0.0))
    return abs(p["rs"])  # an RLoad keeps its resistance


def sgn(x):
    return 1.0 if x > 0 else (-1.0 if x < 0 else 0.0)


# --------------------------------------------------------------------------------------
# Transfer laws: (Vin, Iout) -> Vout, Iin
# --------------------------------------------------------------------------------------
class Unstable(Exception):
    pass


def law_vout(node, phase, vin, iout, mode=0, sel=0, strict=False):
    """Documented output voltage.  vin: input voltage (for a Source: unused).
    strict=True raises Unstable when a passive series element would lose its polarity."""
    k, p = node["kind"], node["params"]
    if k == "Source":
        vo = p["vo"]
        if vo == 0.0 or not S.active_in(node, phase):
            return 0.0
        out = vo - sgn(vo) * abs(p.get("rs", 0.0)) * iout
        if strict and sgn(out) != sgn(vo):
            raise Unstable(node["name"])
        return out
    if vin == 0.0:
        return 0.0
    if k in S.LOADS:
        return 0.0
    if k == "RLoss":
        out = vin - sgn(vin) * abs(p["rs"]) * iout
    elif k == "VLoss":
        out = vin - sgn(vin) * pval(p["vdrop"], "vdrop", iout, vin, mode)
    elif k == "Converter":
        return p["vo"] if S.active_in(node, phase) else 0.0
    elif k == "LinReg":
        if not S.active_in(node, phase):
            return 0.0
        v = min(abs(p["vo"]), max(abs(vin) - abs(p.get("vdrop", 0.0)), 0.0))
        return v if p["vo"] >= 0 else -v
    elif k == "PSwitch":
        if not S.active_in(node, phase):
            return 0.0
        out = sgn(vin) * (abs(vin) - abs(p.get("rs", 0.0)) * iout)
    elif k == "PMux":
        if not S.active_in(node, phase):
            return 0.0
        rs = p.get("rs", 0.0)
        r = abs(rs[sel]) if isinstance(rs, list) else abs(rs)
        out = sgn(vin) * (abs(vin) - r * iout)
    elif k == "Rectifier":
        if S.rect_mode(node) == "diode":
            out = abs(vin) - 2.0 * pval(p["vdrop"], "vdrop", iout, vin, mode)
        else:
            out = abs(vin) - 2.0 * abs(p.get("rs", 0.0)) * iout
        if strict and out <= 0.0:
            raise Unstable(node["name"])
        return out
    else:
        raise ValueError(k)
    if strict and sgn(out) != sgn(vin):
        raise Unstable(node["name"])
    return out


def law_iin(node, phase, vin, iout, mode=0):
    """Documented input current (magnitude)."""
    k, p = node["kind"], node["params"]
    if k == "Source":
        if p["vo"] == 0.0 or not S.active_in(node, phase):
            return 0.0
        return iout
    if vin == 0.0:
        return 0.0
    if k == "PLoad":
        return load_value(node, phase) / abs(vin)
    if k == "ILoad":
        return load_value(node, phase)
    if k == "RLoad":
        return abs(vin) / load_value(node, phase)
    if k in ("RLoss", "VLoss"):
        return iout
    if k == "Converter":
        if p["vo"] == 0.0:
            return 0.0
        if not S.active_in(node, phase):
            return abs(p.get("iis", 0.0))
        if iout == 0.0:
            return abs(p.get("iq", 0.0))
        eff = pval(p["eff"], "eff", iout, vin, mode)
        return abs(p["vo"]) * iout / (abs(vin) * eff)
    if k in ("LinReg", "PSwitch", "PMux"):
        if not S.active_in(node, phase):
            return abs(p.get("iis", 0.0))
        return iout + pval(p.get("ig", 0.0), "ig", iout, vin, mode)
    if k == "Rectifier":
        if S.rect_mode(node) == "diode":
            return iout
        if iout == 0.0:
            return abs(p.get("iq", 0.0))
        return iout + pval(p.get("ig", 0.0), "ig", iout, vin, mode)
    raise ValueError(k)


# --------------------------------------------------------------------------------------
# Liveness / mux selection / domain, from the spec alone
# --------------------------------------------------------------------------------------
def live_map(spec, phase, vin_of=None):
    """name -> True iff the component *outputs* a live (non-zero) rail in `phase`, by the
    documented rule: a node is dead iff its supply is dead; sources are dead when 0 V or
    inactive; converters/regulators/switches/mux output nothing when inactive; a mux is
    fed by its first live input.  (Assumes no element drops its whole input.)"""
    nm = S.node_map(spec)
    powered = {}  # has a live input
    out = {}
    sel = {}
    for n in spec["nodes"]:
        k = n["kind"]
        if k == "Source":
            powered[n["name"]] = n["params"]["vo"] != 0.0 and S.active_in(n, phase)
            out[n["name"]] = powered[n["name"]]
            continue
        if k == "PMux":
            s = None
            for i, pn in enumerate(n["parents"]):
                if out[pn]:
                    s = i
                    break
            sel[n["name"]] = s
            powered[n["name"]] = s is not None
        else:
            powered[n["name"]] = out[n["parents"][0]]
        if not powered[n["name"]]:
            out[n["name"]] = False
        elif k in S.LOADS:
            out[n["name"]] = False
        elif k in ("Converter", "LinReg", "PSwitch", "PMux"):
            out[n["name"]] = S.active_in(n, phase) and (
                k != "Converter" or n["params"]["vo"] != 0.0)
            if k == "LinReg" and out[n["name"]] and vin_of is not None:
                # a regulator whose input does not exceed its dropout voltage outputs 0 V
                # (vin_of: observed input voltage, the only way to know)
                v = vin_of(n["name"])
                if v is not None and abs(v) <= abs(n["params"].get("vdrop", 0.0)):
                    out[n["name"]] = False
        else:
            out[n["name"]] = True
    return powered, out, sel


def supplier_map(spec, phase, vin_of=None):
    """name -> name of the component that supplies it in `phase` (mux: selected input,
    or its first declared input when none is live); Sources -> None."""
    _p, _o, sel = live_map(spec, phase, vin_of)
    sup = {}
    for n in spec["nodes"]:
        if n["kind"] == "Source":
            sup[n["name"]] = None
        elif n["kind"] == "PMux":
            s = sel[n["name"]]
            sup[n["name"]] = n["parents"][s if s is not None else 0]
        else:
            sup[n["name"]] = n["parents"][0]
    return sup, sel


def domain_map(spec, phase, vin_of=None):
    """name -> root Source actually powering it (following the mux's selected input)."""
    sup, _sel = supplier_map(spec, phase, vin_of)
    dom = {}
    for n in spec["nodes"]:
        if n["kind"] == "Source":
            dom[n["name"]] = n["name"]
        else:
            dom[n["name"]] = dom[sup[n["name"]]]
    return dom


# --------------------------------------------------------------------------------------
# Reference steady-state solver (Gauss-Seidel on the documented laws)
# --------------------------------------------------------------------------------------
def ref_solve(spec, phase="", tol=1e-13, maxiter=5000, strict=True, start=None):
    """Returns dict name -> (vin, vout, iin, iout), or raises Unstable / returns None when
    no fixed point is found.  Mux selection by liveness of inputs (vout != 0)."""
    nodes = spec["nodes"]
    ch = S.children_map(spec)
    nm = S.node_map(spec)
    vout = {n["name"]: 0.0 for n in nodes}
    iin = {n["name"]: 0.0 for n in nodes}
    vin = {n["name"]: 0.0 for n in nodes}
    iout = {n["name"]: 0.0 for n in nodes}
    selm = {}
    if start:
        for k, (a, b, c, d) in start.items():
            vin[k], vout[k], iin[k], iout[k] = a, b, c, d
    for it in range(maxiter):
        delta = 0.0
        # voltages root -> leaf
        for n in nodes:
            name = n["name"]
            if n["kind"] == "Source":
                vi = n["params"]["vo"] if S.active_in(n, phase) else 0.0
                s = 0
            elif n["kind"] == "PMux":
                s = None
                for i, pn in enumerate(n["parents"]):
                    if vout[pn] != 0.0:
                        s = i
                        break
                selm[name] = s
                vi = vout[n["parents"][s]] if s is not None else 0.0
                s = s or 0
            else:
                vi = vout[n["parents"][0]]
                s = 0
            vin[name] = vi
            vo = law_vout(n, phase, vi, iout[name], sel=s, strict=strict)
            delta = max(delta, abs(vo - vout[name]) / max(abs(vo), 1e-9))
            vout[name] = vo
        # currents leaf -> root
        for n in reversed(nodes):
            name = n["name"]
            io = 0.0
            for c in ch[name]:
                cn = nm[c]
                if cn["kind"] == "PMux":
                    s = selm.get(c)
                    if s is None or cn["parents"][s] != name:
                        continue
                io += iin[c]
            iout[name] = io
            ii = law_iin(n, phase, vin[name], io)
            delta = max(delta, abs(ii - iin[name]) / max(abs(ii), 1e-12))
            iin[name] = ii
        if not all(math.isfinite(x) for x in vout.values()) or not all(
            math.isfinite(x) for x in iin.values()
        ):
            return None
        if delta <= tol:
            return {k: (vin[k], vout[k], iin[k], iout[k]) for k in vout}
    return None
