"""Plain-data description of a system (the single source of truth for every oracle).

SysSpec = {"name": str, "phases": {name: duration} (ordered, may be empty),
           "nodes": [NodeSpec, ...]  in insertion order, parents before children}
NodeSpec = {"name", "kind", "params": constructor kwargs (without limits),
            "limits": dict | None, "parents": [names] ([] for a Source),
            "pref": ["name"|"rail", ...] how each parent is addressed in add_comp,
            "group": str, "rail": str, "pconf": None | list | dict}
Oracles never look inside sysloss objects: they read the spec handed to the constructors.
"""

import copy

KINDS = [
    "Source", "PLoad", "ILoad", "RLoad", "RLoss", "VLoss",
    "Converter", "LinReg", "PSwitch", "PMux", "Rectifier",
]
LOADS = ("PLoad", "ILoad", "RLoad")
NONLOADS = tuple(k for k in KINDS if k not in LOADS)
# passive series elements (property C03): must neither invert nor amplify
PASSIVE = ("Source", "RLoss", "VLoss", "PSwitch", "PMux", "Rectifier")
PHASE_LIST_KINDS = ("Source", "Converter", "LinReg", "PSwitch", "PMux")
TYPE_NAME = {
    "Source": "SOURCE", "PLoad": "LOAD", "ILoad": "LOAD", "RLoad": "LOAD",
    "RLoss": "SLOSS", "VLoss": "SLOSS", "Converter": "CONVERTER", "LinReg": "LINREG",
    "PSwitch": "PSWITCH", "PMux": "PMUX", "Rectifier": "RECTIFIER",
}
LIMIT_KEYS = ["vi", "vo", "vd", "ii", "io", "pi", "po", "pl", "tr", "tp"]
LIMITS_DEFAULT = {k: [0.0, 1.0e6] for k in LIMIT_KEYS}
LIMITS_DEFAULT["tp"] = [-1.0e6, 1.0e6]
# documented "The following limits apply" lists (class docstrings)
APPLICABLE = {
    "Source": ["io", "po", "pl"],
    "PLoad": ["vi", "ii", "tr", "tp"],
    "ILoad": ["vi", "pi", "tr", "tp"],
    "RLoad": ["vi", "ii", "pi", "tr", "tp"],
    "Converter": ["vi", "vo", "ii", "io", "pi", "po", "pl", "tr", "tp"],
}
for _k in ("RLoss", "VLoss", "LinReg", "PSwitch", "PMux", "Rectifier"):
    APPLICABLE[_k] = list(LIMIT_KEYS)


def node_map(spec):
    return {n["name"]: n for n in spec["nodes"]}


def children_map(spec):
    ch = {n["name"]: [] for n in spec["nodes"]}
    for n in spec["nodes"]:
        for p in n["parents"]:
            ch[p].append(n["name"])
    return ch


def is_load(node):
    return node["kind"] in LOADS


def sources(spec):
    return [n["name"] for n in spec["nodes"] if n["kind"] == "Source"]


def depth_map(spec):
    nm = node_map(spec)
    d = {}
    for n in spec["nodes"]:
        d[n["name"]] = 0 if not n["parents"] else 1 + max(d[p] for p in n["parents"])
    return d


def descendants(spec, name):
    ch = children_map(spec)
    out, todo = [], list(ch[name])
    seen = set()
    while todo:
        c = todo.pop()
        if c in seen:
            continue
        seen.add(c)
        out.append(c)
        todo.extend(ch[c])
    return out


def is_table(v):
    return isinstance(v, dict)


def has_table(node):
    return any(is_table(v) for v in node["params"].values())


def rect_mode(node):
    """'diode' iff vdrop != 0.0 (class docstring), else 'mosfet'."""
    vd = node["params"].get("vdrop", 0.0)
    if is_table(vd):
        return "diode"
    return "diode" if vd != 0.0 else "mosfet"


def active_in(node, phase):
    """Is a Source/Converter/LinReg/PSwitch/PMux active in `phase`?  Components without
    (or with an empty) phase configuration are always active."""
    pc = node.get("pconf")
    if not pc:
        return True
    return phase in pc


def clone(spec):
    return copy.deepcopy(spec)


def topo_orders_ok(spec, order):
    seen = set()
    for i in order:
        n = spec["nodes"][i]
        if any(p not in seen for p in n["parents"]):
            return False
        seen.add(n["name"])
    return spec["nodes"][order[0]]["kind"] == "Source"


def summarize(spec):
    """Abbreviated printable form for evidence samples."""
    out = []
    for n in spec["nodes"]:
        ps = {}
        for k, v in n["params"].items():
            if is_table(v):
                ps[k] = "table{}x{}".format(len(v["vi"]), len(v["io"]))
            elif isinstance(v, float):
                ps[k] = float("{:.4g}".format(v))
            else:
                ps[k] = v
        e = {"name": n["name"], "kind": n["kind"], "parents": n["parents"], "params": ps}
        for k in ("rail", "group"):
            if n.get(k):
                e[k] = n[k]
        if n.get("pconf"):
            e["pconf"] = n["pconf"]
        if n.get("limits"):
            e["limits"] = n["limits"]
        out.append(e)
    r = {"nodes": out}
    if spec.get("phases"):
        r["phases"] = spec["phases"]
    return r


def reductions(spec):
    """Smaller candidate specs (for post-shrink minimisation): drop a leaf, drop a whole
    subtree, drop a decoration."""
    ch = children_map(spec)
    nsrc = len(sources(spec))
    for n in reversed(spec["nodes"]):
        name = n["name"]
        if n["kind"] == "Source" and nsrc < 2:
            continue
        gone = set(descendants(spec, name)) | {name}
        c = clone(spec)
        keep = []
        ok = True
        for m in c["nodes"]:
            if m["name"] in gone:
                continue
            if m["kind"] == "PMux":
                m_par = [p for p in m["parents"] if p not in gone]
                if not m_par:
                    ok = False
                    break
                if len(m_par) != len(m["parents"]):
                    idx = [i for i, p in enumerate(m["parents"]) if p not in gone]
                    rs = m["params"].get("rs")
                    if isinstance(rs, list):
                        m["params"]["rs"] = [rs[i] for i in idx]
                    m["pref"] = [m["pref"][i] for i in idx]
                    m["parents"] = m_par
            keep.append(m)
        if ok and keep and keep[0]["kind"] == "Source":
            c["nodes"] = keep
            yield c
    for i, n in enumerate(spec["nodes"]):
        for field, blank in (("limits", None), ("pconf", None), ("group", ""), ("rail", "")):
            if n.get(field):
                c = clone(spec)
                c["nodes"][i][field] = blank
                if field == "rail":
                    for m in c["nodes"]:
                        m["pref"] = ["name"] * len(m["parents"])
                yield c
        for k, v in n["params"].items():
            if isinstance(v, dict):
                c = clone(spec)
                zk = [x for x in v if x not in ("vi", "io")][0]
                c["nodes"][i]["params"][k] = v[zk][0][0]
                yield c
