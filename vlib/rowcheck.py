"""Row checker: 'evaluate every component law once more on the returned values'.

Given the table returned by solve() for one phase and the spec, verify per row
 (i)   Vin  = Vout of the feeding component (mux: first live declared input; a Source:
             its nominal vo, 0 when inactive),
 (ii)  Iout = sum of the Iin of its children (a mux child counts for its selected parent),
 (iii) Vout and Iin follow from the *reported* (Vin, Iout) by the documented law.
(i),(ii) are copies/re-summations: 1e-12 relative.  (iii) is the residual bounded by the
solver's own convergence test (successive iterates agree within atol 1e-8 + tol*|x|): the
observed value must lie in the hull of the law evaluated at (Vin, Iout) perturbed by
K*(1e-8 + tol*|x|), widened by the same bound; K = 3.
"""

from vlib import refmodel as R
from vlib import spec as S
from vlib.runner import Fail
from vlib.table import finite, isnum

K = 3.0
ATOL = 1e-8


def _tolv(x, tol):
    return K * (ATOL + tol * abs(x))


def selected_input(node, tab, phase):
    """First declared input whose *reported* output is live (non-zero)."""
    for i, pn in enumerate(node["parents"]):
        r = tab.by.get((phase, pn))
        if r is not None and isnum(r["Vout (V)"]) and r["Vout (V)"] != 0.0:
            return i
    return None


def check_names(spec, tab, phase, pre=""):
    want = [n["name"] for n in spec["nodes"]]
    got = tab.names(phase)
    if tab.dups:
        raise Fail(pre + "rows.duplicate", "duplicate component rows {}".format(tab.dups))
    if sorted(got) != sorted(want):
        raise Fail(pre + "rows.names", "phase {!r}: rows {} but components {}".format(
            phase, sorted(got), sorted(want)))


def check_finite(tab, pre=""):
    for r in tab.rows:
        for c in ("Vin (V)", "Vout (V)", "Iin (A)", "Iout (A)", "Power (W)", "Loss (W)",
                  "Efficiency (%)", "Temp. rise (°C)", "Peak temp. (°C)",
                  "24h energy (Wh)"):
            if c in r and r[c] != "" and not finite(r[c]):
                raise Fail(pre + "finite", "row {!r} column {} = {!r}".format(
                    r["Component"], c, r[c]))


def check_rows(spec, tab, phase, vtol=1e-6, itol=1e-6, pre="", stats=None):
    nm = S.node_map(spec)
    ch = S.children_map(spec)
    check_names(spec, tab, phase, pre)
    sel = {}
    for n in spec["nodes"]:
        if n["kind"] == "PMux":
            sel[n["name"]] = selected_input(n, tab, phase)
    for n in spec["nodes"]:
        name, k = n["name"], n["kind"]
        r = tab.by[(phase, name)]
        vin, vout, iin, iout = r["Vin (V)"], r["Vout (V)"], r["Iin (A)"], r["Iout (A)"]
        for c, v in (("Vin", vin), ("Vout", vout), ("Iin", iin), ("Iout", iout)):
            if not finite(v):
                raise Fail(pre + "finite", "{} of {!r} is {!r}".format(c, name, v))
        # (i) input voltage
        if k == "Source":
            vo = n["params"]["vo"]
            exp = vo if (S.active_in(n, phase) and vo != 0.0) else 0.0
            rs = abs(n["params"].get("rs", 0.0))
            # Vin(source) is reported as Vout + rs*Iin with Vout from one sweep earlier: equal
            # to the nominal voltage within the voltage and current tolerances
            if abs(vin - exp) > K * (ATOL + vtol * abs(exp) + itol * rs * abs(iout)) + 1e-12 * abs(
                    exp):
                raise Fail(pre + "vin.source", "Source {!r}: Vin {!r}, nominal {!r}".format(
                    name, vin, exp))
            s = 0
        else:
            if k == "PMux":
                s = sel[name]
                feeder = n["parents"][s] if s is not None else None
            else:
                s = 0
                feeder = n["parents"][0]
            exp = tab.by[(phase, feeder)]["Vout (V)"] if feeder is not None else 0.0
            if k == "PMux" and s is None:
                # no live input: Vin must be 0 (all inputs report 0 V)
                exp = 0.0
            if abs(vin - exp) > 1e-12 * abs(exp):
                raise Fail(pre + "vin.neighbour." + k,
                           "{!r}: Vin {!r} but feeder {!r} outputs {!r}".format(
                               name, vin, feeder, exp))
        # (ii) output current = sum of children's input currents
        tot, terms = 0.0, []
        for c in ch[name]:
            cn = nm[c]
            if cn["kind"] == "PMux":
                cs = sel[c]
                if cs is None or cn["parents"][cs] != name:
                    continue
            ci = tab.by[(phase, c)]["Iin (A)"]
            terms.append(ci)
            tot += ci
        # (a Source row reports its own current of the previous sweep, not a re-summation:
        # equal only within the convergence tolerance)
        slack = _tolv(tot, itol) if k == "Source" else 0.0
        if abs(iout - tot) > slack + 1e-11 * max(
                abs(tot), max([abs(t) for t in terms] or [0.0])):
            raise Fail(pre + "iout.children." + k,
                       "{!r}: Iout {!r} but children draw {!r} (sum {!r})".format(
                           name, iout, terms, tot))
        # (iii) transfer law, hull over the convergence residual
        dv = _tolv(vin, vtol)
        di = _tolv(iout, itol)
        vins = [vin] if (k == "Source" or vin == 0.0) else [vin - dv, vin, vin + dv]
        if vin != 0.0 and k != "Source" and (vin - dv) * (vin + dv) <= 0:
            vins = [vin]
        iouts = [iout] if iout == 0.0 else [max(iout - di, 0.0), iout, iout + di]
        vo_c, ii_c = [], []
        modes = (0, 1) if S.has_table(n) else (0,)
        for m in modes:
            for a in vins:
                for b in iouts:
                    vo_c.append(R.law_vout(n, phase, a, b, mode=m, sel=s or 0))
                    ii_c.append(R.law_iin(n, phase, a, b, mode=m))
        lo, hi = min(vo_c), max(vo_c)
        ev = _tolv(vout, vtol)
        if not (lo - ev <= vout <= hi + ev):
            raise Fail(pre + "law.vout." + k,
                       "{!r} ({}): Vout {!r} but law gives [{!r}, {!r}] at Vin={!r}, "
                       "Iout={!r}; params {}".format(name, k, vout, lo, hi, vin, iout,
                                                     _short(n)))
        lo, hi = min(ii_c), max(ii_c)
        ei = _tolv(iin, itol)
        if not (lo - ei <= iin <= hi + ei):
            raise Fail(pre + "law.iin." + k,
                       "{!r} ({}): Iin {!r} but law gives [{!r}, {!r}] at Vin={!r}, "
                       "Iout={!r}; params {} pconf {}".format(
                           name, k, iin, lo, hi, vin, iout, _short(n), n.get("pconf")))
    return sel


def _short(n):
    out = {}
    for k, v in n["params"].items():
        out[k] = "table" if isinstance(v, dict) else v
    return out
