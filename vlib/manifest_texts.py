"""Texts for MANIFEST.json (kept beside the code so they stay in step with it)."""

NOTES = (
    "All checks: /venv/bin/python check.py <ID> --tier quick|thorough; VERIF_SEED selects "
    "the Hypothesis seed (default 1); exit 0 held / 1 violation (VIOLATION line + replay "
    "file under replays/<ID>/) / 2 harness error. known_findings.json is the committed "
    "register of recorded and fixed defects."
)
NA = {}
CHECKS = {
    "C20": {
        "level": "exploration",
        "ref": "DESIGN.md section 2, C20",
        "technique": "property-based testing: exact rational-arithmetic reference + metamorphic relations (Hypothesis)",
        "text": "Generated positive dimensions/resistivities/temperatures over 8 decades are compared with the closed form evaluated in exact rational arithmetic (1e-12 relative) and with the scaling, symmetry, affine-in-temperature and trace==plane relations of the statement. Exploration is the right level: the functions are two closed-form expressions, a formula slip (unit factor, wrong reference temperature, one width only) shows on essentially every input.",
        "note": "Trusts Python's Fraction arithmetic; temperature factors within 0.05 of zero are excluded (relative error undefined by cancellation).",
    },
}
