"""Texts for MANIFEST.json (kept beside the code so they stay in step with it)."""

NOTES = (
    "All checks: /venv/bin/python check.py <ID> --tier quick|thorough; VERIF_SEED selects "
    "the Hypothesis seed (default 1); exit 0 held / 1 violation (VIOLATION line + replay "
    "file under replays/<ID>/) / 2 harness error. known_findings.json is the committed "
    "register of recorded and fixed defects."
)
NA = {}
CHECKS = {
    "C20": {
        "level": "exploration",
        "ref": "DESIGN.md section 2, C20",
        "technique": "property-based testing: exact rational-arithmetic reference + metamorphic relations (Hypothesis)",
        "text": "Generated positive dimensions/resistivities/temperatures over 8 decades are compared with the closed form evaluated in exact rational arithmetic (1e-12 relative) and with the scaling, symmetry, affine-in-temperature and trace==plane relations of the statement. Exploration is the right level: the functions are two closed-form expressions, a formula slip (unit factor, wrong reference temperature, one width only) shows on essentially every input.",
        "note": "Trusts Python's Fraction arithmetic; temperature factors within 0.05 of zero are excluded (relative error undefined by cancellation).",
    },
    "C01": {
        "level": "exploration",
        "ref": "DESIGN.md section 2, C01; section 1.2 (reference model)",
        "technique": "property-based testing: generated power trees (with and without load phases) vs independent reference transfer laws (row checker) + supply-mirroring metamorphic relation (Hypothesis)",
        "text": "Generated trees of all 11 kinds (constants and 1-D/2-D tables, both polarities, PMux, 1-3 sources) are solved by the real code; every returned row is compared with its neighbours (Vin = feeder's Vout, Iout = sum of children's Iin) and with an independently written transfer law evaluated at the reported (Vin, Iout), within the residual the solver's own convergence test allows; negating all sources must mirror passive chains and change nothing else. Exploration is the honest level: the property quantifies over an unbounded family of trees and real-valued parameters.",
        "note": "Trusted base: vlib/refmodel.py (laws transcribed from docstrings/property text), tolerance 3*(1e-8+tol*|x|), either triangulation accepted inside a 2-D table cell. Known finding F1 (negative source with rs>0) is excluded by construction and re-demonstrated by a probe.",
    },
    "C02": {
        "level": "exploration",
        "ref": "DESIGN.md section 2, C02",
        "technique": "property-based testing: algebraic conservation identities recomputed from the reported table (Hypothesis)",
        "text": "On generated solvable systems (with thermal resistances, ambient temperatures, loss-flagged loads, zero-volt sources and load phases) every row must satisfy P-L=|Vout|*Iout, 0<=L<=P, Eff=100(P-L)/P, loads carry consumption as Power xor Loss, the system balance sum(source P)=sum(load P)+sum(L), rise=rt*dissipation and peak=ambient+rise, per phase. The identities are recomputed from cells and spec parameters, not from the code's formulas.",
        "note": "Interpretation I1: a load is heated by what it consumes even when not counted as loss. Identities through the convergence residual use 2e-5 relative. F1 excluded by construction.",
    },
    "C03": {
        "level": "exploration",
        "ref": "DESIGN.md section 2, C03",
        "technique": "property-based testing: outcome classification, one-more-evaluation residual check, physicality predicate, sweep counting, differential against an independent reference steady-state solver (Hypothesis) + exhaustive enumeration of series kind x load x drop fraction x polarity x small maxiter",
        "text": "Overloaded and modest systems are solved with drawn vtol/itol/maxiter. The outcome must be a table, RuntimeError or ValueError; a table must be finite, reproduce under one more evaluation of every law at the requested tolerance, show no inverted/amplified passive series element, and must not have been first met after sweep maxiter (sweeps counted by wrapping the propagation routine). When my reference solver finds a steady state with all series drops <= 10 %, solve() with defaults must return it. The 'finds' clause is liveness-flavoured and only sampled.",
        "note": "Trusted base: reference solver in vlib/refmodel.py as existence witness. Known findings F1, F8 (Rectifier rs list -> TypeError), F17 (mux start-up transient trips a polarity guard) are excluded by construction and probed.",
    },
    "C04": {
        "level": "exploration",
        "ref": "DESIGN.md section 2, C04",
        "technique": "property-based testing: expected dead set computed from the spec (reference liveness rule) vs exact-zero rows and exact sleep currents (Hypothesis)",
        "text": "Generated trees with 2-4 phases, phase-inactive sources/converters/regulators/switches/mux and 0 V sources at drawn positions. A reference rule computes from the spec alone which components have a dead supply in each phase; those rows must be exactly zero in all six electrical columns, an inactive element on a live supply must draw exactly its sleep current and dissipate iis*|Vin|, and live loads must draw current. Exploration over positions/phase assignments/kinds; exact comparisons (no tolerance) because the code short-circuits.",
        "note": "Assumes no live element drops its whole input (modest-drop generator). Known finding F18 (currents <= 1e-8 A, numpy's default atol, on a dead rail) excluded by flooring generated small currents at 1e-7 A and probed.",
    },
    "C05": {
        "level": "exploration",
        "ref": "DESIGN.md section 2, C05",
        "technique": "property-based testing with exhaustive enumeration of all 2^k live/dead input patterns per generated mux system (one load phase per pattern), reference selection rule + row checker; edited-input streams (rename, rail change, delete keeping children; enumerated merge scenarios) (Hypothesis + enumeration)",
        "text": "A dedicated generator builds a PMux with 1-4 inputs behind individual chains and gives the system one phase per live/dead pattern, so every pattern of every generated mux is solved. The selected input expected from the spec must be the one the table shows: Vin, Parent/Rail in and Domain name it, Vout uses rs[selected], only the selected input carries the mux current, no live input means an all-zero mux and subtree.",
        "note": "Liveness by the C04 rule; Parent label unchecked when no input is live; Domain only with >= 2 sources. About 20 % of generated systems are unsolvable in some phase (input voltages differ) and are skipped, counted in the evidence.",
    },
    "C06": {
        "level": "exploration",
        "ref": "DESIGN.md section 2, C06",
        "technique": "property-based testing: per-phase row checker with phase-specific reference laws + metamorphic relations (single phase vs all phases, no-configuration and load-table-only systems vs phase-less rebuilds, rail- vs name-addressed configuration) (Hypothesis)",
        "text": "For generated phase sets and per-component phase configurations each phase's rows must satisfy the reference law for that phase (table value, sleep value, or constructor value for loads; active lists for sources/regulators/switches/mux). solve(phase=p) must equal the rows of phase p cell for cell, unknown phases must raise ValueError, and systems whose configuration is absent or load-tables-only must equal phase-less rebuilds.",
        "note": "Only well-typed configurations are generated (I10). Tolerance as C01 for laws, exact for the single-phase comparison, 3e-5 relative between two independently converged solutions.",
    },
    "C07": {
        "level": "exploration",
        "ref": "DESIGN.md section 2, C07",
        "technique": "property-based testing: re-aggregation oracle (domains, subsystem/total/average/energy rows recomputed from component rows and the spec) over generated multi-source systems in drawn insertion orders and after generated edit histories (Hypothesis)",
        "text": "For generated systems with 1-3 sources, optional PMux and phases, built in a drawn topological insertion order, the expected domain of every component is derived from the spec (following the mux's selected input) and every Subsystem, System total, System average and 24h-energy cell is recomputed from the component rows and compared at 1e-9. The same aggregate oracle is run by the C16 state machine after edit histories, which covers the 'after any edit history' part of the quantifier.",
        "note": "I3: Subsystem voltage = source row's Vin. Efficiency cells compared at 1e-7 absolute (percent).",
    },
    "C08": {
        "level": "exploration",
        "ref": "DESIGN.md section 2, C08",
        "technique": "property-based testing: rail report recomputed from solve() rows and the spec's supplier relation (Hypothesis)",
        "text": "Generated systems with rail names on any subset of non-loads (parents addressed by rail or name), limits that produce warnings, phases and PMux. Expected rows = exactly the (phase, rail) pairs with members by the spec's supplier relation; voltage, current, power, loss are re-summed from solve() rows (1e-9) and warning tokens are the union of the members'; without rails the report must equal solve() cell for cell. Half of the cases pass drawn solve() arguments (ta, phase, energy, tags, vtol, itol) to both calls: the report must summarise that very table.",
        "note": "I7: None or empty frame accepted when rails feed nothing. Efficiency column of the report not asserted.",
    },
    "C09": {
        "level": "exploration",
        "ref": "DESIGN.md section 2, C09",
        "technique": "property-based testing with two-pass boundary placement (limits put exactly on / 1e-9 beside observed quantities) against a reference warning predicate, plus exhaustive kinds x keys applicability table (Hypothesis + enumeration)",
        "text": "A system is solved once, then limits are placed relative to the observed quantities (exactly on them, a hair above/below, half, double, negative-signed, min>max) on applicable and inapplicable keys, and the system is rebuilt and solved again. The Warnings cell must contain exactly the applicable keys whose quantity lies outside [min,max] (magnitude; tp signed), nothing when the phase is not listed, with Subsystem/System roll-up by expected domain and limits() showing the configured pairs. All 11x10 kind/key pairs are enumerated for applicability.",
        "note": "Relies on solve() being deterministic between the two passes; quantities recomputed from reported cells with the same float operations.",
    },
    "C10": {
        "level": "exploration",
        "ref": "DESIGN.md section 2, C10",
        "technique": "property-based testing: independent piecewise-linear reference (both triangulations inside a cell) vs the component's interpolator and vs solve() of a pinning probe system (Hypothesis)",
        "text": "Generated well-conditioned 1-D and 2-D tables (float or Python-int breakpoints, axes also written with negative numbers, vi rows in any order) for every tabulated parameter of every kind are queried on all grid points, on grid lines, inside cells, in all 8 outside regions and far outside. Values must equal the table entry / 1-D linear value / one of the two cell triangulations within the corner range / the clamped value, never NaN; the same through the public API with both supply polarities; an all-equal table must behave as the constant.",
        "note": "I4. 'Largest coordinate' taken over both axes. Direct stream uses the private _ipr._interp; tolerance 1e-7 relative.",
    },
    "C11": {
        "level": "exploration",
        "ref": "DESIGN.md section 2, C11",
        "technique": "property-based testing: single-fault mutation of valid constructor calls against a must-reject predicate; sign-flip metamorphic relation in a probe system, every (kind, magnitude parameter) pair enumerated (Hypothesis + enumeration)",
        "text": "Valid constructor calls for all 11 kinds receive exactly one invalidating mutation from the statement's list and must raise ValueError (unmutated calls must construct). Every parameter documented as a magnitude is given with both signs: the two components must produce identical solve() tables in a phase-switched probe system, with Loss >= 0, efficiency <= 100 and no amplification.",
        "note": "I9 behavioural reading of 'treated as magnitudes'. Wrong-type scalars and NaN are outside the explored domain.",
    },
    "C12": {
        "level": "exploration",
        "ref": "DESIGN.md section 2, C12",
        "technique": "property-based testing: save/load round trip compared through all reports + fixed point of the JSON document, also for systems reached through generated edit histories; version gate by rewriting the file's version incl. pre-/post-release forms (Hypothesis)",
        "text": "Full-feature generated systems are saved and reloaded; solve(energy=True), rail_rep(), params(limits=True) on applicable keys and phases() must agree keyed by component/phase, the mux input order must survive, and saving the reloaded system must reproduce the same JSON document up to sibling order (which covers every stored parameter including tables and rectifier mode). Bumped versions must be refused with ValueError.",
        "note": "Non-applicable limits are not persisted by design of the property ('applicable limits').",
    },
    "C13": {
        "level": "exploration",
        "ref": "DESIGN.md section 2, C13",
        "technique": "property-based testing: differential TOML loader vs constructor in a probe system; single-fault files (missing mandatory key, wrong TOML type) (Hypothesis)",
        "text": "For each kind generated kwargs are written as TOML and loaded; the loaded and the constructed component must give identical params(limits=True) and solve() tables in the same phase-switched probe system (absent optional keys = constructor defaults). Files with a mandatory key removed must raise KeyError and files with a wrongly typed value ValueError (generic loader); LinReg's ig/iq spellings are both exercised.",
        "note": "TOML arrays written homogeneous. LinReg's own loader has no type gate (property excludes it from that clause).",
    },
    "C14": {
        "level": "exploration",
        "ref": "DESIGN.md section 2, C14/C15/C16 (edit-history state machine)",
        "technique": "model-based stateful property testing (Hypothesis RuleBasedStateMachine over the edit API) with a well-formedness invariant after every step + bounded-exhaustive small-scope enumeration of all call sequences up to length 4/5 over a 10-call alphabet",
        "text": "Random histories of add_source/add_comp/change_comp/del_comp/set_*_phases calls, with arguments drawn from the current model so that valid calls and every kind of collision are frequent, are applied to the real system; after every step - accepted or rejected - the invariant (unique and disjoint names/rails, consistent registries, roots = Sources, childless loads, single multi-parent PMux, only links add_comp accepts, save() lists exactly the components) is checked on the real system.",
        "note": "Reads the graph and registries (private) and cross-checks the public save() document. Histories are bounded (25/40 steps).",
    },
    "C15": {
        "level": "fault_enumeration",
        "ref": "DESIGN.md section 2, C14/C15/C16",
        "technique": "model-based stateful property testing; every class of rejected call is generated on purpose and each rejection is checked by full before/after snapshot comparison (Hypothesis RuleBasedStateMachine)",
        "text": "The same machine takes a snapshot (tree text, params, phases, save document, solve table or exception, registries, graph, component parameters) before every call; whenever a call raises, the snapshot after it must be identical, and the history continues on that state. The classes of rejected calls (unknown / rail-valued targets, duplicate names and rails, incompatible kinds, last source, source without children, malformed phase arguments, ...) are counted in the evidence; fault enumeration over those classes x reachable states.",
        "note": "Any exception counts as a rejection; only a changed snapshot is a violation (I10: unvalidated phase-configuration content is not expected to raise).",
    },
    "C16": {
        "level": "exploration",
        "ref": "DESIGN.md section 2, C14/C15/C16",
        "technique": "model-based stateful property testing: reference model of the documented effect of every edit; differential comparison of all reports against systems rebuilt from the model in two insertion orders (Hypothesis RuleBasedStateMachine)",
        "text": "A model applies the documented effect of every accepted edit. After accepted steps all eight reports must succeed and list exactly the model's components, and must agree (values at 1e-9, tree paths, save document) with a system built from scratch from the model, in canonical and in permuted order; C07's aggregate oracle runs on the edited system. This is what makes results history- and order-independent.",
        "note": "Where the documented effect is undefined (deleting, without children, a mux input whose parent is already an input) only 'reports succeed and list the components' is required. The model is my reading of the docstrings.",
    },
    "C17": {
        "level": "fault_enumeration",
        "ref": "DESIGN.md section 2, C17",
        "technique": "property-based testing of call interleavings with snapshot invariance + exhaustive enumeration of the failing callback index k (Exception and BaseException types) and of solver-failure steps for batt_life + metamorphic relation: the same edit history with and without interleaved analyses (Hypothesis + enumeration)",
        "text": "Drawn interleavings of the eleven analysis calls must leave the full snapshot and every passed-in object unchanged and every solve() table equal to the first. For batt_life a terminating battery model is run once to learn its n callback calls and then re-run with an exception injected at every k in 0..n-1 (three exception types) and with the solver made to fail from every step: afterwards the battery's vo/rs in params() and the snapshot must be the original.",
        "note": "exhaustive on the fault index axis for each generated (system, model); systems and models themselves are sampled.",
    },
    "C18": {
        "level": "exploration",
        "ref": "DESIGN.md section 2, C18",
        "technique": "property-based testing: recording callbacks + reference model of the depletion loop, expected current from an independently built and solved copy of the system (Hypothesis)",
        "text": "Scripted battery models (data: capacity, voltage and resistance curves; state handed over as tuple, list, array or one list object updated in place) record every callback argument. A model of the loop predicts, per step, the phase (cycling in declared order), the duration and the battery current (from a freshly built copy of the system with the battery's present voltage and impedance, solved for that phase through the public solve()), the log rows, the strictly increasing time and the stopping point; non-Source names must raise ValueError.",
        "note": "Current compared at 3e-5 relative (batt_life's internal tolerances). Positive battery voltages only.",
    },
    "C19": {
        "level": "exploration",
        "ref": "DESIGN.md section 2, C19",
        "technique": "property-based testing: DOT output of make_diag/make_hdiag parsed back and compared with the spec (also after generated edit histories), the configuration precedence rule and losses recomputed from solve(); SI formatter checked directly (Hypothesis)",
        "text": "For generated systems, groups (also names of blanks) and three-level configuration overrides (keys in any insertion order) the Graphviz source is parsed back: node set, directed edge set, cluster membership, every node/cluster/edge/graph attribute by precedence, unchanged caller configuration; heat labels within 0.5 % of the duration-weighted loss, colours decoding to loss/maxloss, extreme colours for the largest/zero loss, legend showing the maximum.",
        "note": "Checks the DOT source handed to Graphviz, not rendered pixels.",
    },
}
