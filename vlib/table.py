"""DataFrame -> keyed plain dicts."""

import math

COMP = "Component"
NUMCOLS = [
    "Vin (V)", "Vout (V)", "Iin (A)", "Iout (A)", "Power (W)", "Loss (W)",
    "Efficiency (%)", "Temp. rise (°C)", "Peak temp. (°C)", "24h energy (Wh)",
]


class Table:
    """rows: list of dicts (column -> python value); comp rows keyed by (phase, name)."""

    def __init__(self, df):
        self.cols = list(df.columns)
        self.rows = [_plain(r) for r in df.to_dict("records")]
        self.has_phase = "Phase" in self.cols
        self.parent_col = "Parent" if "Parent" in self.cols else (
            "Rail in" if "Rail in" in self.cols else None)
        self.by = {}
        self.special = {}  # (phase, "Subsystem X" | "System total") / "System average"
        self.dups = []
        for r in self.rows:
            ph = r.get("Phase", "") if self.has_phase else ""
            name = r[COMP]
            if r.get("Type", "") != "" and r.get("Type", "") is not None:
                key = (ph, name)
                if key in self.by:
                    self.dups.append(key)
                self.by[key] = r
            else:
                self.special[(ph, name)] = r

    def phases(self):
        seen = []
        for (ph, _n) in self.by:
            if ph not in seen:
                seen.append(ph)
        return seen

    def comp_rows(self, phase):
        return [r for (ph, _n), r in self.by.items() if ph == phase]

    def names(self, phase):
        return [n for (ph, n) in self.by if ph == phase]


def _plain(rec):
    out = {}
    for k, v in rec.items():
        if hasattr(v, "item") and not isinstance(v, (str, bytes)):
            try:
                v = v.item()
            except Exception:
                pass
        out[k] = v
    return out


def isnum(v):
    return isinstance(v, (int, float)) and not isinstance(v, bool)


def finite(v):
    return isnum(v) and math.isfinite(v)


def frames_equal(a, b, rel=0.0, abs_=0.0, ignore_cols=()):
    """Cell-for-cell comparison of two DataFrames; returns None or a description."""
    ca = [c for c in a.columns if c not in ignore_cols]
    cb = [c for c in b.columns if c not in ignore_cols]
    if ca != cb:
        return "columns differ: {} vs {}".format(ca, cb)
    if len(a) != len(b):
        return "row count differs: {} vs {}".format(len(a), len(b))
    ra = [_plain(r) for r in a.to_dict("records")]
    rb = [_plain(r) for r in b.to_dict("records")]
    for i, (x, y) in enumerate(zip(ra, rb)):
        for c in ca:
            if not cell_eq(x[c], y[c], rel, abs_):
                return "row {} ({}) column {!r}: {!r} vs {!r}".format(
                    i, x.get(COMP, ""), c, x[c], y[c])
    return None


def cell_eq(x, y, rel=0.0, abs_=0.0):
    if isnum(x) and isnum(y):
        if math.isnan(x) and math.isnan(y):
            return True
        if x == y:
            return True
        return abs(x - y) <= abs_ + rel * max(abs(x), abs(y))
    if isinstance(x, (list, tuple)) and isinstance(y, (list, tuple)):
        return len(x) == len(y) and all(cell_eq(p, q, rel, abs_) for p, q in zip(x, y))
    return x == y


def keyed(df, keycols):
    """rows of df keyed by tuple of key columns (for order-insensitive comparison)."""
    out = {}
    for r in df.to_dict("records"):
        r = _plain(r)
        k = tuple(r.get(c, "") for c in keycols)
        out.setdefault(k, []).append(r)
    return out


def keyed_equal(a, b, keycols, rel=0.0, abs_=0.0, ignore_cols=()):
    """Order-insensitive comparison of two frames; None or description."""
    ca = sorted(c for c in a.columns if c not in ignore_cols)
    cb = sorted(c for c in b.columns if c not in ignore_cols)
    if ca != cb:
        return "columns differ: {} vs {}".format(ca, cb)
    ka, kb = keyed(a, keycols), keyed(b, keycols)
    if set(ka) != set(kb):
        return "row keys differ: only in first {}, only in second {}".format(
            sorted(set(ka) - set(kb), key=repr)[:5], sorted(set(kb) - set(ka), key=repr)[:5])
    for k in ka:
        if len(ka[k]) != len(kb[k]):
            return "row {} appears {} vs {} times".format(k, len(ka[k]), len(kb[k]))
        for x, y in zip(ka[k], kb[k]):
            for c in ca:
                if not cell_eq(x[c], y[c], rel, abs_):
                    return "row {} column {!r}: {!r} vs {!r}".format(k, c, x[c], y[c])
    return None
