"""spec -> real sysloss System, strictly through the public API."""

import copy
import warnings


def make_comp(node):
    import sysloss.components as C

    cls = getattr(C, node["kind"])
    kw = copy.deepcopy(node["params"])
    if node.get("limits") is not None:
        kw["limits"] = copy.deepcopy(node["limits"])
    return cls(node["name"], **kw)


def parent_arg(spec_nodes, node):
    refs = []
    for i, p in enumerate(node["parents"]):
        how = (node.get("pref") or ["name"] * len(node["parents"]))[i]
        if how == "rail" and spec_nodes[p].get("rail"):
            refs.append(spec_nodes[p]["rail"])
        else:
            refs.append(p)
    if node["kind"] == "PMux":
        return refs
    return refs[0]


def build(spec, order=None, phases=True):
    """Build the System described by spec.  `order`: optional permutation of node
    indices (must be topological, first a Source)."""
    from sysloss.system import System

    nodes = spec["nodes"]
    nm = {n["name"]: n for n in nodes}
    order = list(range(len(nodes))) if order is None else order
    sys = None
    with warnings.catch_warnings():
        warnings.simplefilter("ignore")
        for i in order:
            n = nodes[i]
            comp = make_comp(n)
            kw = {}
            if n.get("group"):
                kw["group"] = n["group"]
            if n.get("rail"):
                kw["rail"] = n["rail"]
            if n["kind"] == "Source":
                if sys is None:
                    sys = System(spec.get("name", "System"), comp, **kw)
                else:
                    sys.add_source(comp, **kw)
            else:
                sys.add_comp(parent_arg(nm, n), comp=comp, **kw)
        if phases:
            apply_phases(sys, spec)
    return sys


def apply_phases(sys, spec):
    """spec["_phases_last"]: configure the components first, define the system phases last."""
    last = spec.get("_phases_last")
    if spec.get("phases") and not last:
        sys.set_sys_phases(copy.deepcopy(spec["phases"]))
    for n in spec["nodes"]:
        if n.get("pconf") is not None:
            sys.set_comp_phases(n["name"], copy.deepcopy(n["pconf"]))
    if spec.get("phases") and last:
        sys.set_sys_phases(copy.deepcopy(spec["phases"]))


def solve(sys, **kw):
    """solve() with deprecation/runtime warnings silenced."""
    with warnings.catch_warnings():
        warnings.simplefilter("ignore")
        return sys.solve(**kw)
