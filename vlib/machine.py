"""Model-based state machine over the edit API (C14, C15, C16; also C07's history part).

The machine holds the real System and a *model* (a spec: nodes with parents by name,
rails, groups, phase configuration).  Every rule draws one operation (a plain dict, so a
history is replayable without Hypothesis), executes it on the real system inside try/except
and, when the call returned, applies the documented effect to the model.

focus selects the oracle:
  C14  well-formedness invariants of the real system after every step
  C15  a call that raised left every report unchanged (snapshot before/after)
  C16  after successful steps: every report works, lists the model's components and agrees
       with systems rebuilt from the model (canonical and shuffled order); C07 aggregates
"""

import contextlib
import copy
import io
import json
import os
import tempfile
import warnings

from hypothesis import strategies as st

from vlib import build as B
from vlib import gen as G
from vlib import spec as S
from vlib.runner import Fail, jhash
from vlib.table import Table, keyed_equal, _plain

KINDS = S.KINDS
PHASES = ["sleep", "active", "tx", "idle"]
GROUPS = ["", "", "Main", "RF part"]


# --------------------------------------------------------------------------------------
# drawing operations
# --------------------------------------------------------------------------------------
def draw_params(draw, kind):
    f = lambda lo, hi: draw(G.logf(lo, hi))  # noqa: E731
    opt = lambda: draw(st.integers(0, 2)) > 0  # noqa: E731
    p = {}
    if kind == "Source":
        p["vo"] = draw(st.sampled_from([5.0, 12.0, 24.0, 3.7, -12.0, 0.0, 48.0]))
        if opt():
            p["rs"] = f(1e-3, 0.2) if p["vo"] >= 0 else 0.0
    elif kind == "PLoad":
        p["pwr"] = f(1e-3, 0.05)
        if opt():
            p["pwrs"] = f(1e-6, 1e-4)
    elif kind == "ILoad":
        p["ii"] = f(1e-3, 0.02)
        if opt():
            p["iis"] = f(1e-6, 1e-4)
    elif kind == "RLoad":
        p["rs"] = f(200.0, 5000.0)
    elif kind == "RLoss":
        p["rs"] = f(1e-3, 0.5)
    elif kind == "VLoss":
        p["vdrop"] = f(0.01, 0.2) if opt() else {
            "vi": [3.0], "io": [0.001, 0.1, 1.0], "vdrop": [[0.05, 0.1, f(0.1, 0.2)]]}
    elif kind == "Converter":
        p["vo"] = draw(st.sampled_from([1.8, 3.3, 5.0, 1.2]))
        p["eff"] = draw(st.floats(0.6, 0.98)) if opt() else {
            "vi": [3.3, 12.0], "io": [0.001, 0.1, 1.0],
            "eff": [[0.6, 0.8, 0.9], [0.55, 0.75, draw(st.floats(0.8, 0.95))]]}
        if opt():
            p["iq"] = f(1e-6, 1e-4)
        if opt():
            p["iis"] = f(1e-6, 1e-5)
    elif kind == "LinReg":
        p["vo"] = draw(st.sampled_from([1.8, 2.5, 3.3, 1.0]))
        if opt():
            p["vdrop"] = f(0.05, 0.5)
        if opt():
            p["ig"] = f(1e-6, 1e-4)
        if opt():
            p["iis"] = f(1e-6, 1e-5)
    elif kind in ("PSwitch", "PMux"):
        if opt():
            p["rs"] = f(1e-3, 0.3)
        if kind == "PMux" and draw(st.integers(0, 2)) == 0:
            p["rs"] = [f(1e-3, 0.3) for _ in range(4)]
        if opt():
            p["ig"] = f(1e-6, 1e-4)
        if opt():
            p["iis"] = f(1e-6, 1e-5)
    elif kind == "Rectifier":
        if opt():
            p["vdrop"] = f(0.05, 0.3)
        else:
            p["rs"] = f(1e-3, 0.2)
            if opt():
                p["ig"] = f(1e-6, 1e-4)
    if kind != "Source" and draw(st.integers(0, 3)) == 0:
        p["rt"] = f(1.0, 50.0)
    if kind in S.LOADS and draw(st.integers(0, 4)) == 0:
        p["loss"] = True
    return p


def draw_limits(draw):
    if draw(st.integers(0, 3)) > 0:
        return None
    lim = {}
    for k in S.LIMIT_KEYS:
        if draw(st.integers(0, 4)) == 0:
            lim[k] = [0.0, draw(G.logf(1e-3, 100.0))]
    return lim or None


def fresh_name(draw, model, counter):
    base = draw(st.sampled_from(["U", "Buck ", "LDO_", "Load.", "R+", "SW-"]))
    return "{}{}".format(base, counter)


def draw_name(draw, model, counter):
    """fresh (mostly), or colliding with an existing name / rail"""
    names = [n["name"] for n in model["nodes"]]
    rails = [n["rail"] for n in model["nodes"] if n["rail"]]
    r = draw(st.integers(0, 11))
    if r == 5 and names:
        return draw(st.sampled_from(names)), "name_collides_name"
    if r == 6 and rails:
        return draw(st.sampled_from(rails)), "name_collides_rail"
    grave = [g for g in model.get("_graveyard", []) if g not in names and g not in rails]
    if r in (7, 8, 9) and grave:
        return draw(st.sampled_from(grave)), "name_of_deleted_component"
    return fresh_name(draw, model, counter), "fresh"


def draw_rail(draw, model, counter, own_name, current=""):
    names = [n["name"] for n in model["nodes"]]
    rails = [n["rail"] for n in model["nodes"] if n["rail"]]
    r = draw(st.integers(0, 15))
    if r <= 5:
        return "", "none"
    if r == 6 and rails:
        return draw(st.sampled_from(rails)), "rail_collides_rail"
    if r == 7 and names:
        return draw(st.sampled_from(names)), "rail_collides_name"
    if r == 8:
        return own_name, "rail_equals_own_name"
    if r == 9 and current:
        return current, "rail_unchanged"
    if r == 10 and len(current) > 1:
        return current[:-1], "rail_prefix_of_current"
    if r == 11 and current:
        sub = [x for x in rails + names if x != current and x in current]
        if sub:
            return draw(st.sampled_from(sub)), "rail_taken_substring_of_current"
    return "rail{}".format(counter), "fresh"


def draw_target(draw, model, allow_unknown=True, prefer=None):
    """prefer: 'nonload' (parents for add_comp) or 'mux' (the mux and its inputs)"""
    names = [n["name"] for n in model["nodes"]]
    rails = [n["rail"] for n in model["nodes"] if n["rail"]]
    r = draw(st.integers(0, 11))
    if r == 10 and allow_unknown:
        return "no such thing", "unknown"
    if r in (8, 9) and rails:
        return draw(st.sampled_from(rails)), "by_rail"
    if prefer == "nonload":
        cand = [n["name"] for n in model["nodes"] if n["kind"] not in S.LOADS]
        if r in (2, 3, 4):
            return cand[-1], "by_name"  # the most recently added one: deep chains
        return draw(st.sampled_from(cand)), "by_name"
    if prefer == "mux" and r < 5:
        mux = [n for n in model["nodes"] if n["kind"] == "PMux"]
        if mux:
            cand = [mux[0]["name"]] + list(mux[0]["parents"])
            return draw(st.sampled_from(cand)), "by_name"
    return draw(st.sampled_from(names)), "by_name"


def mux_targeted_op(draw, model, counter):
    """An edit aimed at an input of the PMux: delete it keeping / with its children, rename
    it, change the rail it carries, or replace it by another kind."""
    nm = S.node_map(model)
    mux = [n for n in model["nodes"] if n["kind"] == "PMux"][0]
    target = draw(st.sampled_from(mux["parents"]))
    node = nm[target]
    what = draw(st.sampled_from(["del_keep", "del_keep", "del_all", "rename", "rename",
                                 "rail", "other_kind"]))
    if what in ("del_keep", "del_all"):
        # the input may be addressed by the name of the rail it carries
        by_rail = bool(node["rail"]) and draw(st.booleans())
        return {"op": "del_comp", "target": node["rail"] if by_rail else target,
                "del_childs": what == "del_all",
                "cls": ["target_by_rail" if by_rail else "target_by_name", "mux_input"]}
    kind = node["kind"]
    if what == "other_kind":
        kind = draw(st.sampled_from(["RLoss", "PSwitch", "LinReg", "VLoss", "Source"]))
    name = node["name"] if what == "rail" else fresh_name(draw, model, counter)
    rail = "rail{}".format(counter) if (what != "rename" or node["rail"]) else ""
    params = copy.deepcopy(node["params"]) if kind == node["kind"] else draw_params(draw, kind)
    return {"op": "change_comp", "target": target,
            "comp": {"name": name, "kind": kind, "params": params,
                     "limits": copy.deepcopy(node.get("limits"))},
            "group": node["group"], "rail": rail,
            "cls": ["target_by_name", "mux_input", "renamed" if name != target
                    else "name_unchanged", "kind_" + kind]}


def move_ops(draw, model, counter):
    """'Move' a leaf component: delete it and add it again (same kind and parameters, same or
    new name) under another parent - two consecutive operations with no analysis in between."""
    ch = S.children_map(model)
    leaves = [n for n in model["nodes"] if n["kind"] != "Source" and not ch[n["name"]]
              and len(n["parents"]) == 1]
    if not leaves:
        return None
    x = draw(st.sampled_from(leaves))
    others = [n["name"] for n in model["nodes"] if n["kind"] not in S.LOADS
              and n["name"] != x["name"] and n["name"] != x["parents"][0]]
    if not others:
        return None
    newpar = draw(st.sampled_from(others))
    same = draw(st.booleans())
    name = x["name"] if same else fresh_name(draw, model, counter)
    comp = {"name": name, "kind": x["kind"], "params": copy.deepcopy(x["params"]),
            "limits": copy.deepcopy(x.get("limits"))}
    return [
        {"op": "del_comp", "target": x["name"], "del_childs": True,
         "cls": ["target_by_name", "move"]},
        {"op": "add_comp", "parent": newpar, "comp": comp, "group": x["group"],
         "rail": x["rail"], "cls": ["move", "name_of_deleted_component" if same else "fresh",
                                    "kind_" + x["kind"], "parent_by_name"]},
    ]


def draw_op(draw, model, counter):
    nm = S.node_map(model)
    names = list(nm)
    kind_of = {n["name"]: n["kind"] for n in model["nodes"]}
    has_mux = any(k == "PMux" for k in kind_of.values())
    if has_mux and draw(st.integers(0, 6)) == 3:
        return mux_targeted_op(draw, model, counter)
    if draw(st.integers(0, 9)) == 4:
        mv = move_ops(draw, model, counter)
        if mv:
            return mv
    which = draw(st.sampled_from(
        ["add_comp"] * 6 + ["add_source"] * 2 + ["change_comp"] * 4 + ["del_comp"] * 3
        + ["set_sys_phases"] * 2 + ["set_comp_phases"] * 2))
    if which == "add_source":
        r = draw(st.integers(0, 9))
        kind = "Source" if r else draw(st.sampled_from(["PLoad", "RLoss"]))
        name, ncls = draw_name(draw, model, counter)
        rail, rcls = draw_rail(draw, model, counter, name)
        return {"op": "add_source", "comp": {"name": name, "kind": kind,
                                              "params": draw_params(draw, kind),
                                              "limits": draw_limits(draw)},
                "group": draw(st.sampled_from(GROUPS)), "rail": rail,
                "cls": [ncls, rcls, "kind_" + kind]}
    if which == "add_comp":
        pool = [k for k in KINDS if k != "Source"] * 3 + ["Source"] + ["PMux"] * 4
        if has_mux:
            pool = [k for k in pool if k != "PMux"] + ["PMux"]
        kind = draw(st.sampled_from(pool))
        name, ncls = draw_name(draw, model, counter)
        rail, rcls = draw_rail(draw, model, counter, name)
        cls = [ncls, rcls, "kind_" + kind]
        as_list = kind == "PMux" or draw(st.integers(0, 14)) == 6
        if as_list:
            k = draw(st.integers(1, min(4, len(names))))
            nonload = [x for x in names if kind_of[x] not in S.LOADS]
            pool2 = nonload if draw(st.integers(0, 9)) < 7 else names
            k = min(k, len(pool2))
            picks = draw(st.lists(st.sampled_from(pool2), min_size=k, max_size=k, unique=True))
            if nonload and draw(st.booleans()) and nonload[-1] not in picks:
                picks[0] = nonload[-1]  # the deepest / newest element as first input
            refs = []
            for pn in picks:
                if nm[pn]["rail"] and draw(st.booleans()):
                    refs.append(nm[pn]["rail"])
                else:
                    refs.append(pn)
            if draw(st.integers(0, 14)) == 6 and refs:
                refs.append(refs[0])
                cls.append("duplicate_parents")
            elif draw(st.integers(0, 14)) == 6:
                # the same component once by name and once by its rail
                for pn in picks:
                    if nm[pn]["rail"]:
                        refs = [r_ for r_ in refs if r_ not in (pn, nm[pn]["rail"])]
                        # (the alias pair in front, so that other inputs follow it)
                        refs = [pn, nm[pn]["rail"]] + refs
                        cls.append("alias_parents")
                        break
            if draw(st.integers(0, 14)) == 6:
                refs[0] = "no such parent"
                cls.append("unknown_parent")
            if kind != "PMux":
                cls.append("list_parent_non_mux")
            parent = refs
        else:
            parent, tcls = draw_target(draw, model, prefer="nonload")
            cls.append("parent_" + tcls)
        return {"op": "add_comp", "parent": parent,
                "comp": {"name": name, "kind": kind, "params": draw_params(draw, kind),
                         "limits": draw_limits(draw)},
                "group": draw(st.sampled_from(GROUPS)), "rail": rail, "cls": cls}
    if which == "change_comp":
        target, tcls = draw_target(draw, model, prefer="mux")
        old = nm.get(target)
        cls = ["target_" + tcls]
        r = draw(st.integers(0, 9))
        if old is not None and r < 5:
            kind = old["kind"]
            cls.append("same_kind")
        else:
            kind = draw(st.sampled_from(KINDS))
            cls.append("other_kind")
        r = draw(st.integers(0, 9))
        if old is not None and r < 5:
            name, ncls = old["name"], "name_unchanged"
        else:
            name, ncls = draw_name(draw, model, counter)
            if ncls == "fresh":
                ncls = "renamed"
        rail, rcls = draw_rail(draw, model, counter, name, old["rail"] if old else "")
        cls += [ncls, rcls, "kind_" + kind]
        return {"op": "change_comp", "target": target,
                "comp": {"name": name, "kind": kind, "params": draw_params(draw, kind),
                         "limits": draw_limits(draw)},
                "group": draw(st.sampled_from(GROUPS)), "rail": rail, "cls": cls}
    if which == "del_comp":
        target, tcls = draw_target(draw, model, prefer="mux")
        return {"op": "del_comp", "target": target, "del_childs": draw(st.booleans()),
                "cls": ["target_" + tcls]}
    if which == "set_sys_phases":
        r = draw(st.integers(0, 7))
        if r == 0:
            ph, c = {"only": 1.0}, "one_phase"
        elif r == 1:
            # the reserved name at a drawn position among valid phases
            items = [(PHASES[i], 1.0 + i) for i in range(draw(st.integers(1, 3)))]
            items.insert(draw(st.integers(0, len(items))), ("N/A", 1.0))
            ph, c = dict(items), "reserved_name"
        elif r == 2:
            ph, c = {}, "reset"
        else:
            k = draw(st.integers(2, 4))
            ph = {PHASES[i]: draw(G.logf(0.01, 1000.0)) for i in range(k)}
            c = "valid"
        return {"op": "set_sys_phases", "phases": ph, "cls": [c]}
    # set_comp_phases
    target, tcls = draw_target(draw, model)
    node = nm.get(target)
    if node is None:
        byrail = [n for n in model["nodes"] if n["rail"] == target]
        node = byrail[0] if byrail else None
    phs = list(model["phases"]) or PHASES[:2]
    r = draw(st.integers(0, 9))
    if r == 0:
        conf, c = draw(st.sampled_from(["sleep", 3, None])), "bad_type"
        if conf is None:
            conf = ("sleep",)
    elif node is not None and node["kind"] in S.LOADS:
        sub = [p for p in phs if draw(st.booleans())]
        main = {"PLoad": "pwr", "ILoad": "ii", "RLoad": "rs"}[node["kind"]]
        base = node["params"][main]
        conf = {p: base * draw(st.floats(0.5, 1.5)) for p in sub}
        c = "load_table"
    else:
        conf = [p for p in phs if draw(st.booleans())]
        c = "active_list"
    cls = ["target_" + tcls, c]
    if node is not None:
        cls.append("on_" + node["kind"])
    return {"op": "set_comp_phases", "target": target, "conf": conf, "cls": cls}


# --------------------------------------------------------------------------------------
# model
# --------------------------------------------------------------------------------------
def new_node(comp, parents, group, rail):
    return {"name": comp["name"], "kind": comp["kind"], "params": copy.deepcopy(comp["params"]),
            "limits": copy.deepcopy(comp.get("limits")), "parents": list(parents),
            "pref": ["name"] * len(parents), "group": group,
            "rail": "" if comp["kind"] in S.LOADS else rail, "pconf": None}


def resolve(model, ref):
    """name or rail -> node name (None when unknown)"""
    for n in model["nodes"]:
        if n["name"] == ref:
            return n["name"]
    for n in model["nodes"]:
        if n["rail"] and n["rail"] == ref:
            return n["name"]
    return None


def topo_nodes(model):
    nodes = model["nodes"]
    placed, out = set(), []
    rest = list(nodes)
    while rest:
        prog = False
        for n in list(rest):
            if all(p in placed for p in n["parents"]):
                out.append(n)
                placed.add(n["name"])
                rest.remove(n)
                prog = True
        if not prog:
            raise Fail("model.cycle", "model has a cycle / dangling parent: {}".format(
                [(n["name"], n["parents"]) for n in rest]))
    # sources first keeps the first node a Source
    out.sort(key=lambda n: 0)  # stable
    first_src = next(i for i, n in enumerate(out) if n["kind"] == "Source")
    out.insert(0, out.pop(first_src))
    return out


def apply_to_model(model, op):
    """Documented effect of an accepted call.  Returns a tag describing special cases."""
    o = op["op"]
    if o == "add_source":
        model["nodes"].append(new_node(op["comp"], [], op["group"], op["rail"]))
        return ""
    if o == "add_comp":
        refs = op["parent"] if isinstance(op["parent"], list) else [op["parent"]]
        parents = list(dict.fromkeys(resolve(model, r) for r in refs))
        model["nodes"].append(new_node(op["comp"], parents, op["group"], op["rail"]))
        return "alias_parents_merged" if len(parents) < len(refs) else ""
    if o == "change_comp":
        old = op["target"]
        node = S.node_map(model)[old]
        newname = op["comp"]["name"]
        node.update({"name": newname, "kind": op["comp"]["kind"],
                     "params": copy.deepcopy(op["comp"]["params"]),
                     "limits": copy.deepcopy(op["comp"].get("limits")),
                     "group": op["group"],
                     "rail": "" if op["comp"]["kind"] in S.LOADS else op["rail"],
                     "pconf": None})
        tag = ""
        for n in model["nodes"]:
            if old in n["parents"] and old != newname:
                n["parents"] = [newname if p == old else p for p in n["parents"]]
                if n["kind"] == "PMux":
                    tag = "renamed_mux_input"
        return tag or ("renamed" if old != newname else "")
    if o == "del_comp":
        name = resolve(model, op["target"])
        node = S.node_map(model)[name]
        if op["del_childs"]:
            gone = set(S.descendants(model, name)) | {name}
            model["nodes"] = [n for n in model["nodes"] if n["name"] not in gone]
            model.setdefault("_graveyard", []).extend(sorted(gone))
            return "deleted_subtree"
        tag = "deleted_keep_children"
        model.setdefault("_graveyard", []).append(name)
        par = node["parents"][0] if node["parents"] else None
        model["nodes"] = [n for n in model["nodes"] if n["name"] != name]
        for n in model["nodes"]:
            if name in n["parents"]:
                if n["kind"] == "PMux":
                    if par in n["parents"]:
                        # the new parent is already an input of this mux: the two inputs merge
                        # (the parent takes the earlier of the two positions)
                        seq = [par if p == name else p for p in n["parents"]]
                        n["parents"] = list(dict.fromkeys(seq))
                        tag = "mux_inputs_merged"
                    else:
                        n["parents"] = [par if p == name else p for p in n["parents"]]
                        tag = "mux_input_deleted_children_kept"
                else:
                    n["parents"] = [par if p == name else p for p in n["parents"]]
        return tag
    if o == "set_sys_phases":
        model["phases"] = copy.deepcopy(op["phases"])
        return ""
    if o == "set_comp_phases":
        name = resolve(model, op["target"])
        S.node_map(model)[name]["pconf"] = copy.deepcopy(op["conf"])
        return ""
    raise ValueError(o)


# --------------------------------------------------------------------------------------
# executing on the real system
# --------------------------------------------------------------------------------------
def execute(sys, op, warn_error=False):
    """warn_error: run the call with warnings turned into errors (a raising warning is a
    rejected call like any other)."""
    o = op["op"]
    with warnings.catch_warnings():
        warnings.simplefilter("error" if warn_error else "ignore")
        if o == "add_source":
            kw = {}
            if op["group"]:
                kw["group"] = op["group"]
            if op["rail"]:
                kw["rail"] = op["rail"]
            sys.add_source(B.make_comp(op["comp"]), **kw)
        elif o == "add_comp":
            sys.add_comp(copy.deepcopy(op["parent"]), comp=B.make_comp(op["comp"]),
                         group=op["group"], rail=op["rail"])
        elif o == "change_comp":
            sys.change_comp(op["target"], comp=B.make_comp(op["comp"]), group=op["group"],
                            rail=op["rail"])
        elif o == "del_comp":
            sys.del_comp(op["target"], del_childs=op["del_childs"])
        elif o == "set_sys_phases":
            sys.set_sys_phases(copy.deepcopy(op["phases"]))
        elif o == "set_comp_phases":
            conf = op["conf"]
            if isinstance(conf, list) and op.get("cls") and "bad_type" in op["cls"]:
                conf = tuple(conf)
            sys.set_comp_phases(op["target"], copy.deepcopy(conf))
        else:
            raise ValueError(o)


def capture(fn):
    """Run a report; returns ('ok', value) or ('exc', type name)."""
    buf = io.StringIO()
    try:
        with warnings.catch_warnings():
            warnings.simplefilter("ignore")
            with contextlib.redirect_stdout(buf):
                val = fn()
        return "ok", val, buf.getvalue()
    except Exception as e:  # noqa
        return "exc", type(e).__name__ + ": " + str(e)[:120], buf.getvalue()


def save_doc(sys):
    with tempfile.TemporaryDirectory(prefix="vmach_") as d:
        f = os.path.join(d, "s.json")
        sys.save(f)
        with open(f) as fh:
            return json.load(fh)


def frame_records(df):
    if df is None:
        return None
    return [list(df.columns)] + [sorted((k, repr(v)) for k, v in _plain(r).items())
                                 for r in df.to_dict("records")]


def snapshot(sys):
    """Everything observable through the read-only reports (+ the raw registries)."""
    snap = {}
    st_, val, out = capture(lambda: sys.tree())
    snap["tree"] = (st_, out if st_ == "ok" else val)
    for name, fn in (("params", lambda: sys.params(limits=True)), ("phases", sys.phases),
                     ("solve", lambda: sys.solve())):
        st_, val, _o = capture(fn)
        if st_ == "ok":
            snap[name] = ("ok", frame_records(val))
        else:
            snap[name] = ("exc", val.split(":")[0])
    st_, val, _o = capture(lambda: save_doc(sys))
    snap["save"] = (st_, val if st_ == "ok" else val.split(":")[0])
    g = sys._g
    snap["attrs"] = copy.deepcopy({k: v for k, v in g.attrs.items() if k != "hidx"})
    snap["graph"] = (sorted(g.node_indices()), sorted(tuple(e) for e in g.edge_list()))
    snap["objs"] = {i: (type(g[i]).__name__, copy.deepcopy(g[i]._params),
                        copy.deepcopy(g[i]._limits)) for i in g.node_indices()}
    return snap


def snap_diff(a, b):
    for k in a:
        if a[k] != b[k]:
            return k, a[k], b[k]
    return None


# --------------------------------------------------------------------------------------
# oracles
# --------------------------------------------------------------------------------------
def check_wellformed(sys, pre="wf."):
    """C14 invariants, read from the real system."""
    g = sys._g
    st_, doc, _o = capture(lambda: save_doc(sys))
    attrs = g.attrs
    names_reg = list(attrs["nodes"].keys())
    idx = list(g.node_indices())
    objs = {i: g[i] for i in idx}
    names = [objs[i]._params["name"] for i in idx]
    if len(set(names)) != len(names):
        raise Fail(pre + "names_unique", "duplicate component names {}".format(sorted(names)))
    if sorted(names) != sorted(names_reg) or any(
            attrs["nodes"][objs[i]._params["name"]] != i for i in idx):
        raise Fail(pre + "registry_nodes", "name registry {} does not match the graph's "
                   "components {}".format(sorted(names_reg), sorted(names)))
    for reg in ("rails", "groups", "phase_conf"):
        if sorted(attrs[reg].keys()) != sorted(names):
            raise Fail(pre + "registry_" + reg, "{} registry keys {} vs components {}".format(
                reg, sorted(attrs[reg].keys()), sorted(names)))
    rails = [r for r in attrs["rails"].values() if r != ""]
    if len(set(rails)) != len(rails):
        raise Fail(pre + "rails_unique", "duplicate rail names {}".format(sorted(rails)))
    both = set(rails) & set(names)
    if both:
        raise Fail(pre + "names_rails_disjoint", "{} used as component name and as rail".format(
            sorted(both)))
    kind = {i: type(objs[i]).__name__ for i in idx}
    nmux = sum(1 for i in idx if kind[i] == "PMux")
    if nmux > 1:
        raise Fail(pre + "single_mux", "{} PMux components".format(nmux))
    for i in idx:
        indeg, outdeg = g.in_degree(i), g.out_degree(i)
        nm = objs[i]._params["name"]
        if kind[i] == "Source" and indeg != 0:
            raise Fail(pre + "source_not_root", "Source {!r} has a parent".format(nm))
        if kind[i] != "Source" and indeg == 0:
            raise Fail(pre + "root_not_source", "{} {!r} is a root".format(kind[i], nm))
        if kind[i] in S.LOADS and outdeg != 0:
            raise Fail(pre + "load_with_children", "load {!r} ({}) has children {}".format(
                nm, kind[i], [objs[c]._params["name"] for c in g.successor_indices(i)]))
        if indeg > 1 and kind[i] != "PMux":
            raise Fail(pre + "multi_parent", "{} {!r} has {} parents".format(kind[i], nm, indeg))
    for (a, b) in g.edge_list():
        if objs[b]._component_type not in objs[a]._child_types:
            raise Fail(pre + "edge_type", "link {!r} ({}) -> {!r} ({}) is not one add_comp "
                       "accepts".format(objs[a]._params["name"], kind[a],
                                        objs[b]._params["name"], kind[b]))
    if not any(kind[i] == "Source" for i in idx):
        raise Fail(pre + "no_source", "no Source left")
    # the PMux's declared input order must name exactly its parents (each link of the mux
    # is one add_comp made from that list)
    for i in idx:
        if kind[i] == "PMux":
            plist = list(attrs["pnames"].get(i, []))
            preds = sorted(objs[p]._params["name"] for p in g.predecessor_indices(i))
            if sorted(plist) != preds:
                raise Fail(pre + "mux_inputs", "PMux {!r}: declared inputs {} but its parents "
                           "are {}".format(objs[i]._params["name"], plist, preds))
    if st_ != "ok":
        raise Fail(pre + "save_raises", "save() on the edited system raised {}".format(doc))
    # the same facts through the public save() document
    if st_ == "ok":
        top = [k for k in doc if k != "system"]
        for k in top:
            if doc[k]["type"] not in ("SOURCE", "PMUX"):
                raise Fail(pre + "doc_roots", "top-level entry {!r} of type {}".format(
                    k, doc[k]["type"]))
        seen = list(top)
        for k in top:
            for p, lst in doc[k]["childs"].items():
                for c in lst:
                    seen.append(c["params"]["name"])
                    if c["type"] == "SOURCE":
                        raise Fail(pre + "doc_source_child", "Source {!r} saved as a child".format(
                            c["params"]["name"]))
        if sorted(seen) != sorted(names):
            raise Fail(pre + "doc_components", "save() lists {} but components are {}".format(
                sorted(seen), sorted(names)))


def tree_paths(text):
    """tree() text -> set of root-to-node paths."""
    paths, stack = set(), []
    for line in text.splitlines():
        if not line.strip():
            continue
        stripped = line.lstrip(" │├└─")
        depth = (len(line) - len(stripped)) // 4
        stack = stack[:depth] + [stripped.rstrip()]
        paths.add(tuple(stack))
    return paths


def model_paths(model, sysname):
    nm = S.node_map(model)
    ch = S.children_map(model)
    paths = {(sysname,)}

    def walk(prefix, name):
        p = prefix + (name,)
        paths.add(p)
        for c in ch[name]:
            walk(p, c)

    for n in model["nodes"]:
        if n["kind"] == "Source":
            walk((sysname,), n["name"])
    return paths


REPORTS = ["solve", "rail_rep", "params", "limits", "phases", "tree", "save", "make_diag"]


def run_reports(sys):
    from sysloss.diagram import make_diag

    out = {}
    out["solve"] = capture(lambda: sys.solve(energy=True))
    out["rail_rep"] = capture(lambda: sys.rail_rep())
    out["params"] = capture(lambda: sys.params(limits=True))
    out["limits"] = capture(lambda: sys.limits())
    out["phases"] = capture(lambda: sys.phases())
    out["tree"] = capture(lambda: sys.tree())
    out["save"] = capture(lambda: save_doc(sys))

    def diag():
        with tempfile.TemporaryDirectory(prefix="vmach_") as d:
            f = os.path.join(d, "d.raw")
            make_diag(sys, fname=f)
            return open(f).read()

    out["make_diag"] = capture(diag)
    return out


def check_reports_succeed(rep, pre="rep."):
    for name in REPORTS:
        st_, val, _o = rep[name]
        if st_ == "exc":
            et = val.split(":")[0]
            if name in ("solve", "rail_rep") and et in ("ValueError", "RuntimeError"):
                continue  # an unsolvable system is reported as such
            raise Fail(pre + "raises." + name + "." + et,
                       "{}() raised {}".format(name, val))


def check_lists_model(rep, model, pre="rep."):
    want = sorted(n["name"] for n in model["nodes"])
    st_, df, _o = rep["params"]
    got = sorted(df["Component"].tolist())
    if got != want:
        raise Fail(pre + "lists.params", "params() lists {} but the components are {}".format(
            got, want))
    st_, df, _o = rep["limits"]
    if sorted(df["Component"].tolist()) != want:
        raise Fail(pre + "lists.limits", "limits() lists {}".format(sorted(df["Component"])))
    st_, df, _o = rep["solve"]
    if st_ == "ok":
        t = Table(df)
        for ph in (list(model["phases"]) or [""]):
            if sorted(t.names(ph)) != want or t.dups:
                raise Fail(pre + "lists.solve", "solve() phase {!r} lists {} but the components "
                           "are {}".format(ph, sorted(t.names(ph)), want))
    st_, df, _o = rep["phases"]
    if model["phases"]:
        if df is None:
            raise Fail(pre + "lists.phases", "phases() returned None with phases defined")
        got = sorted(set(df["Component"].tolist()))
        if got != want:
            raise Fail(pre + "lists.phases", "phases() lists {} but the components are {} "
                       "(missing {})".format(got, want, sorted(set(want) - set(got))))
    elif df is not None:
        raise Fail(pre + "lists.phases", "phases() returned a frame without phases")
    st_, txt, out = rep["tree"]
    # every component appears in the tree
    tp = tree_paths(out)
    leafs = sorted({p[-1] for p in tp if len(p) > 1})
    if leafs != want:
        raise Fail(pre + "lists.tree", "tree() shows {} but the components are {}".format(
            leafs, want))
    st_, doc, _o = rep["save"]
    st_, dot, _o = rep["make_diag"]
    import pydot
    gs = pydot.graph_from_dot_data(dot)
    nodes = []

    def collect(gr):
        for nd in gr.get_nodes():
            nmq = nd.get_name().strip('"')
            if nmq not in ("node", "edge", "graph"):
                nodes.append(nmq)
        for sg in gr.get_subgraphs():
            collect(sg)

    collect(gs[0])
    if sorted(nodes) != want:
        raise Fail(pre + "lists.make_diag", "make_diag() draws {} but the components are "
                   "{}".format(sorted(nodes), want))
    got_e = sorted((e.get_source().strip('"'), e.get_destination().strip('"'))
                   for e in gs[0].get_edges())
    want_e = sorted((p, n["name"]) for n in model["nodes"] for p in n["parents"])
    if got_e != want_e:
        raise Fail(pre + "lists.make_diag_edges",
                   "make_diag() draws the links {} but the parent->child links are {}".format(
                       sorted(set(got_e) - set(want_e)) or got_e,
                       sorted(set(want_e) - set(got_e)) or want_e))


PARAM_COLS = {"vo": "vo (V)", "vdrop": "vdrop (V)", "rs": "rs (Ohm)", "rt": "rt (°C/W)",
              "eff": "eff (%)", "ig": "ig (A)", "iq": "iq (A)", "ii": "ii (A)",
              "iis": "iis (A)", "pwr": "pwr (W)", "pwrs": "pwrs (W)", "loss": "loss"}
# parameters each kind stores (and therefore shows), with the constructor defaults
KIND_PARAMS = {
    "Source": {"vo": None, "rs": 0.0, "rt": 0.0},
    "PLoad": {"pwr": None, "pwrs": 0.0, "rt": 0.0, "loss": False},
    "ILoad": {"ii": None, "iis": 0.0, "rt": 0.0, "loss": False},
    "RLoad": {"rs": None, "rt": 0.0, "loss": False},
    "RLoss": {"rs": None, "rt": 0.0},
    "VLoss": {"vdrop": None, "rt": 0.0},
    "Converter": {"vo": None, "eff": None, "iq": 0.0, "iis": 0.0, "rt": 0.0},
    "LinReg": {"vo": None, "vdrop": 0.0, "ig": 0.0, "iis": 0.0, "rt": 0.0},
    "PSwitch": {"rs": 0.0, "ig": 0.0, "iis": 0.0, "rt": 0.0},
    "PMux": {"rs": 0.0, "ig": 0.0, "iis": 0.0, "rt": 0.0},
}


def check_config_reports(rep, model, pre="cfg."):
    """params(), limits() and phases() show what each component was configured with."""
    nm = S.node_map(model)
    df = rep["params"][1]
    for rec in df.to_dict("records"):
        rec = _plain(rec)
        n = nm[rec["Component"]]
        if rec["Type"] != S.TYPE_NAME[n["kind"]]:
            raise Fail(pre + "params.type", "{!r}: Type {!r}, component is a {}".format(
                n["name"], rec["Type"], n["kind"]))
        if n["kind"] == "Rectifier":
            kp = ({"vdrop": None, "rt": 0.0} if S.rect_mode(n) == "diode"
                  else {"rs": 0.0, "ig": 0.0, "iq": 0.0, "rt": 0.0})
        else:
            kp = KIND_PARAMS[n["kind"]]
        for par, col in PARAM_COLS.items():
            got = rec[col]
            if par not in kp:
                want = ""
            else:
                v = n["params"].get(par, kp[par])
                want = "interp" if isinstance(v, dict) else v
            if isinstance(got, tuple):
                got = list(got)
            if got != want and not (isinstance(want, float) and isinstance(got, (int, float))
                                    and not isinstance(got, bool) and got == abs(want)):
                raise Fail(pre + "params." + par,
                           "params(): {!r} ({}) shows {} = {!r}, configured {!r}".format(
                               n["name"], n["kind"], col, got, want))
    # limits: given pair unless default
    lf = rep["limits"][1]
    for rec in lf.to_dict("records"):
        rec = _plain(rec)
        n = nm[rec["Component"]]
        for k in S.LIMIT_KEYS:
            col = [c for c in rec if c.split(" ")[0] == k][0]
            given = (n.get("limits") or {}).get(k)
            want = "" if (given is None or list(given) == S.LIMITS_DEFAULT[k]) else list(given)
            got = rec[col]
            if got != want:
                raise Fail(pre + "limits." + k, "limits(): {!r} shows {} = {!r}, configured "
                           "{!r}".format(n["name"], k, got, given))
    # phases
    pf = rep["phases"][1]
    if pf is None:
        return
    phases = list(model["phases"])
    want_rows = {}
    for n in model["nodes"]:
        k, pc = n["kind"], n.get("pconf")
        if k in ("RLoss", "VLoss", "Rectifier"):
            act = ["N/A"]
        else:
            act = [p for p in phases if pc and p in pc] or ["N/A"]
        for p in act:
            val = {"rs (Ohm)": "", "ii (A)": "", "pwr (W)": ""}
            if k in S.LOADS:
                main, col = {"PLoad": ("pwr", "pwr (W)"), "ILoad": ("ii", "ii (A)"),
                             "RLoad": ("rs", "rs (Ohm)")}[k]
                val[col] = n["params"][main] if p == "N/A" else pc[p]
            want_rows[(n["name"], p)] = val
    got_rows = {}
    for rec in pf.to_dict("records"):
        rec = _plain(rec)
        got_rows[(rec["Component"], rec["Active phase"])] = {
            c: rec[c] for c in ("rs (Ohm)", "ii (A)", "pwr (W)")}
    if set(got_rows) != set(want_rows):
        raise Fail(pre + "phases.rows", "phases() rows: unexpected {}, missing {}".format(
            sorted(set(got_rows) - set(want_rows))[:5], sorted(set(want_rows) - set(got_rows))[:5]))
    for key, val in want_rows.items():
        for c, v in val.items():
            g = got_rows[key][c]
            if g != v and not (isinstance(v, float) and isinstance(g, float) and g == abs(v)):
                raise Fail(pre + "phases.value", "phases(): {} {} = {!r}, configured {!r}".format(
                    key, c, g, v))


def rebuilt(model, order_seed=None):
    """System built from scratch from the model (topological order; optionally shuffled)."""
    nodes = topo_nodes(model)
    spec = {"name": model["name"], "phases": model["phases"], "nodes": nodes}
    order = None
    if order_seed is not None:
        prio = list(range(len(nodes)))
        # deterministic pseudo-shuffle from the seed (no RNG): multiplicative permutation
        m = len(nodes)
        mult = next(k for k in (7, 11, 13, 17, 19, 23, 29, 31) if m % k != 0) if m > 1 else 1
        prio = [(i * mult + order_seed) % m for i in range(m)]
        order = G.topo_order_from_priority(spec, prio)
    sys = B.build(spec, order=order, phases=False)
    if model["phases"]:
        sys.set_sys_phases(copy.deepcopy(model["phases"]))
    for n in nodes:
        if n.get("pconf") is not None:
            sys.set_comp_phases(n["name"], copy.deepcopy(n["pconf"]))
    return sys


def canon_doc(doc):
    out = {}
    for k, v in doc.items():
        if k == "system":
            s = dict(v)
            for reg in ("phase_conf", "groups", "rails"):
                s[reg] = dict(sorted(s[reg].items()))
            out[k] = s
            continue
        e = dict(v)
        e["childs"] = {p: sorted(lst, key=lambda c: c["params"]["name"])
                       for p, lst in sorted(v.get("childs", {}).items()) if lst}
        out[k] = e
    return dict(sorted(out.items()))


def compare_with_rebuilt(rep, model, other, what, pre="hist."):
    ro = run_reports(other)
    for name in ("solve", "rail_rep"):
        a, b = rep[name], ro[name]
        if a[0] != b[0]:
            raise Fail(pre + "outcome." + name,
                       "{}(): edited system {} / {} {}".format(
                           name, a[1] if a[0] == "exc" else "returns", what,
                           b[1] if b[0] == "exc" else "returns"))
        if a[0] == "exc":
            if a[1].split(":")[0] != b[1].split(":")[0]:
                raise Fail(pre + "outcome." + name, "{} vs {}".format(a[1], b[1]))
            continue
        da, db = a[1], b[1]
        if (da is None) != (db is None):
            raise Fail(pre + "values." + name, "None vs frame")
        if da is None:
            continue
        if "Rail" in da.columns:
            keys = ["Rail"] + (["Phase"] if "Phase" in da.columns else [])
            da, db = da.copy(), db.copy()
            for fr in (da, db):
                fr["Warnings"] = [" ".join(sorted(set(str(w).replace(",", " ").split())))
                                  for w in fr["Warnings"]]
        else:
            keys = ["Component"] + (["Phase"] if "Phase" in da.columns else [])
        d = keyed_equal(da, db, keys, rel=1e-9, abs_=1e-12)
        if d:
            raise Fail(pre + "values." + name, "{}() of the edited system differs from {}: "
                       "{}".format(name, what, d))
    for name, keys in (("params", ["Component"]), ("limits", ["Component"]),
                       ("phases", ["Component", "Active phase"])):
        a, b = rep[name][1], ro[name][1]
        if ro[name][0] == "exc":
            raise Fail(pre + "rebuilt_raises." + name, str(ro[name][1]))
        if (a is None) != (b is None):
            raise Fail(pre + "values." + name, "None vs frame")
        if a is None:
            continue
        d = keyed_equal(a, b, keys)
        if d:
            raise Fail(pre + "values." + name, "{}() of the edited system differs from {}: "
                       "{}".format(name, what, d))
    pa, pb = tree_paths(rep["tree"][2]), tree_paths(ro["tree"][2])
    if pa != pb:
        raise Fail(pre + "values.tree", "tree() differs from {}: only edited {}, only rebuilt "
                   "{}".format(what, sorted(pa - pb)[:4], sorted(pb - pa)[:4]))
    if ro["save"][0] == "exc":
        raise Fail(pre + "rebuilt_raises.save", str(ro["save"][1]))
    ca, cb = canon_doc(rep["save"][1]), canon_doc(ro["save"][1])
    if ca != cb:
        diff = [k for k in set(ca) | set(cb) if ca.get(k) != cb.get(k)]
        k = sorted(diff)[0]
        raise Fail(pre + "values.save", "save() document differs from {} in {}: {} vs {}".format(
            what, sorted(diff), json.dumps(ca.get(k))[:500], json.dumps(cb.get(k))[:500]))


# --------------------------------------------------------------------------------------
# the driver shared by the Hypothesis machine and by replay
# --------------------------------------------------------------------------------------
class Driver:
    def __init__(self, focus, stats, c16_every=1):
        self.focus = focus
        self.stats = stats
        self.ops = []
        self.sys = None
        self.model = None
        self.undefined = False
        self.flags = set()
        self.steps_ok = 0
        self.rejected = 0
        self.c16_every = c16_every
        self.after_special = 0

    def start(self, comp, group, rail, warn_error=False):
        from sysloss.system import System

        self.warn_error = warn_error
        self.ops.append({"op": "init", "comp": comp, "group": group, "rail": rail,
                         "warn_error": warn_error})
        with warnings.catch_warnings():
            warnings.simplefilter("ignore")
            self.sys = System("Sys", B.make_comp(comp), group=group, rail=rail)
        self.model = {"name": "Sys", "phases": {}, "nodes": [new_node(comp, [], group, rail)]}

    def in_sync(self):
        g = self.sys._g
        real = sorted(g[i]._params["name"] for i in g.node_indices())
        return real == sorted(n["name"] for n in self.model["nodes"])

    def step(self, op):
        stats = self.stats
        self.ops.append(op)
        before = snapshot(self.sys) if "C15" in self.focus else None
        try:
            execute(self.sys, op, getattr(self, "warn_error", False))
            raised = None
        except Exception as e:  # noqa
            raised = e
        kind = op["op"]
        if raised is not None:
            self.rejected += 1
            stats.cls("{}:rejected".format(kind))
            for c in op.get("cls", []):
                stats.cls("{}:rejected:{}".format(kind, c))
            stats.cls("exception:" + type(raised).__name__)
            if "C15" in self.focus:
                after = snapshot(self.sys)
                d = snap_diff(before, after)
                if d:
                    raise Fail("rejected_call_changed.{}.{}".format(kind, d[0]),
                               "{} raised {}: {} but the system changed: {} was {} and is now "
                               "{}".format(op_text(op), type(raised).__name__, raised, d[0],
                                           short(d[1]), short(d[2])))
                if len(self.model["nodes"]) >= 4:
                    self.flags.add("rejection_on_4plus:" + kind)
            tag = ""
        else:
            stats.cls("{}:accepted".format(kind))
            for c in op.get("cls", []):
                stats.cls("{}:accepted:{}".format(kind, c))
            try:
                tag = apply_to_model(self.model, op)
            except Fail:
                raise
            except Exception as e:  # the real system accepted what the model cannot express
                if "C14" in self.focus:
                    check_wellformed(self.sys)
                raise Fail("accepted_undefined." + kind,
                           "{} was accepted but has no documented effect ({}: {})".format(
                               op_text(op), type(e).__name__, e))
            self.steps_ok += 1
            if tag:
                stats.cls("effect:" + tag)
                self.flags.add(tag)
                self.after_special = 0
            else:
                self.after_special += 1
        if "C14" in self.focus:
            check_wellformed(self.sys)
        if not any(n["kind"] == "Source" for n in self.model["nodes"]):
            # no source left (only a defect can get here): nothing more to draw from
            stats.cls("aborted:no_source_left")
            return "abort"
        if not self.in_sync():
            # the real system and the model disagree on the component set: a C16 matter
            if "C16" in self.focus:
                raise Fail("hist.components",
                           "after {}: real components {} vs expected {}".format(
                               op_text(op),
                               sorted(self.sys._g[i]._params["name"]
                                      for i in self.sys._g.node_indices()),
                               sorted(n["name"] for n in self.model["nodes"])))
            stats.cls("aborted:out_of_sync")
            return "abort"
        if "C16" in self.focus and raised is None:
            # whether the reports are run after this step is part of the generated history
            # (op["check_after"]), so that stretches of edits without any analysis in between
            # are explored as well as an analysis after every edit; finish() always checks
            if op.get("check_after", self.steps_ok % self.c16_every == 0):
                self.check_c16()
                self.unchecked = 0
            else:
                self.unchecked = getattr(self, "unchecked", 0) + 1
        return "ok"

    def check_c16(self):
        from vlib.props.c07 import check_aggregates

        rep = run_reports(self.sys)
        check_reports_succeed(rep)
        check_lists_model(rep, self.model)
        check_config_reports(rep, self.model)
        if self.undefined:
            self.stats.cls("c16:undefined_effect_reports_only")
            return
        compare_with_rebuilt(rep, self.model, rebuilt(self.model), "a system built from "
                             "scratch with the same structure")
        compare_with_rebuilt(rep, self.model, rebuilt(self.model, order_seed=len(self.ops)),
                             "the same structure built in another order", pre="order.")
        if rep["solve"][0] == "ok":
            spec = {"name": "Sys", "phases": self.model["phases"],
                    "nodes": topo_nodes(self.model)}
            try:
                check_aggregates(spec, Table(rep["solve"][1]), True, self.stats, pre="agg.")
            except KeyError:
                pass
        self.stats.cls("c16:full_comparison")

    def finish(self):
        """Count the history as non-trivial by the property's rule."""
        if "C16" in self.focus and getattr(self, "unchecked", 0) and self.in_sync():
            self.check_c16()
            self.unchecked = 0
        f = self.flags
        stats = self.stats
        h = jhash(self.ops)
        sample = [op_text(o) for o in self.ops][:14]
        if "C14" in self.focus:
            changed = any(t in f for t in ("renamed", "renamed_mux_input", "deleted_subtree",
                                           "deleted_keep_children",
                                           "mux_input_deleted_children_kept",
                                           "mux_inputs_merged"))
            if changed and self.rejected >= 1 and self.steps_ok >= 2:
                stats.nontriv(h, sample=sample)
        if "C15" in self.focus:
            if any(x.startswith("rejection_on_4plus") for x in f):
                stats.nontriv(h, sample=sample)
        if "C16" in self.focus:
            special = any(t in f for t in ("renamed", "renamed_mux_input",
                                           "deleted_keep_children",
                                           "mux_input_deleted_children_kept",
                                           "mux_inputs_merged", "deleted_subtree"))
            if special and self.after_special >= 1:
                stats.nontriv(h, sample=sample)


def short(x):
    s = repr(x)
    return s if len(s) < 300 else s[:300] + "..."


def op_text(op):
    o = op["op"]
    if o == "init":
        return "System('Sys', {}({!r}, {}), group={!r}, rail={!r})".format(
            op["comp"]["kind"], op["comp"]["name"], _p(op["comp"]), op["group"], op["rail"])
    if o == "add_source":
        return "add_source({}({!r}, {}), group={!r}, rail={!r})".format(
            op["comp"]["kind"], op["comp"]["name"], _p(op["comp"]), op["group"], op["rail"])
    if o == "add_comp":
        return "add_comp({!r}, comp={}({!r}, {}), group={!r}, rail={!r})".format(
            op["parent"], op["comp"]["kind"], op["comp"]["name"], _p(op["comp"]), op["group"],
            op["rail"])
    if o == "change_comp":
        return "change_comp({!r}, comp={}({!r}, {}), group={!r}, rail={!r})".format(
            op["target"], op["comp"]["kind"], op["comp"]["name"], _p(op["comp"]), op["group"],
            op["rail"])
    if o == "del_comp":
        return "del_comp({!r}, del_childs={})".format(op["target"], op["del_childs"])
    if o == "set_sys_phases":
        return "set_sys_phases({})".format(op["phases"])
    return "set_comp_phases({!r}, {})".format(op["target"], op["conf"])


def _p(comp):
    out = []
    for k, v in comp["params"].items():
        out.append("{}={}".format(k, "<table>" if isinstance(v, dict) else (
            "{:.4g}".format(v) if isinstance(v, float) else v)))
    if comp.get("limits"):
        out.append("limits={}".format(comp["limits"]))
    return ", ".join(out)


def replay_ops(ops, focus, stats, c16_every=1):
    """Re-execute a recorded history (bypasses Hypothesis). Raises Fail on violation."""
    d = Driver(focus, stats, c16_every)
    first = ops[0]
    d.start(first["comp"], first["group"], first["rail"], first.get("warn_error", False))
    for op in ops[1:]:
        if d.step(op) == "abort":
            break
    d.finish()
    return d


def make_machine(focus, tier, c16_every=1):
    """Factory (stats, record) -> RuleBasedStateMachine subclass, for runner.Stream."""
    from hypothesis.stateful import (RuleBasedStateMachine, initialize, invariant,
                                     precondition, rule)

    # probability (in tenths) that the reports are run after an accepted step
    check_weight = 4 if c16_every > 1 else 6

    def factory(stats, record):
        class EditMachine(RuleBasedStateMachine):
            def __init__(self):
                super().__init__()
                self.d = Driver(focus, stats, c16_every)
                self.counter = 0
                self.dead = False
                stats.evaluations += 1

            @initialize(data=st.data())
            def init(self, data):
                comp = {"name": "Src0", "kind": "Source",
                        "params": draw_params(data.draw, "Source"), "limits": None}
                rail = data.draw(st.sampled_from(["", "", "VIN"]))
                mode = data.draw(st.integers(0, 7))
                self.d.start(comp, data.draw(st.sampled_from(GROUPS)), rail,
                             warn_error=(mode == 7))
                if mode in (0, 1, 2):
                    # mux-centred start: two sources, an element in front of input 0, a PMux
                    # over both and a load behind it, so that edits at mux inputs are frequent
                    try:
                        for op in mux_preamble(data.draw):
                            if self.d.step(op) == "abort":
                                self.dead = True
                                break
                        self.counter = 10
                    except Fail as f:
                        record["case"] = list(self.d.ops)
                        record["fail"] = f
                        self.failed = True
                        raise

            @precondition(lambda self: not self.dead)
            @rule(data=st.data())
            def edit(self, data):
                self.counter += 1
                op = draw_op(data.draw, self.d.model, self.counter)
                try:
                    r = "ok"
                    seq = op if isinstance(op, list) else [op]
                    for j, one in enumerate(seq):
                        # analysis after this step? (never inside a move pair)
                        one["check_after"] = (j == len(seq) - 1) and (
                            data.draw(st.integers(0, 9)) < check_weight)
                        r = self.d.step(one)
                        if r == "abort":
                            break
                except Fail as f:
                    record["case"] = list(self.d.ops)
                    record["fail"] = f
                    self.failed = True
                    raise
                if r == "abort":
                    self.dead = True

            @precondition(lambda self: self.dead)
            @rule()
            def idle(self):
                """the history was aborted (model and system out of step): nothing to do"""

            def teardown(self):
                if self.d.sys is not None and not getattr(self, "failed", False):
                    try:
                        self.d.finish()
                    except Fail as f:
                        record["case"] = list(self.d.ops)
                        record["fail"] = f
                        raise

        return EditMachine

    return factory


def mux_preamble(draw):
    k1 = draw(st.sampled_from(["RLoss", "PSwitch", "LinReg", "Converter"]))
    r1 = draw(st.sampled_from(["", "railA"]))
    ops = [
        {"op": "add_source", "comp": {"name": "SrcB", "kind": "Source",
                                      "params": {"vo": draw(st.sampled_from([3.7, 5.0, 9.0]))},
                                      "limits": None}, "group": "", "rail": "", "cls": []},
        {"op": "add_comp", "parent": "Src0",
         "comp": {"name": "InA", "kind": k1, "params": draw_params(draw, k1), "limits": None},
         "group": "", "rail": r1, "cls": []},
    ]
    third = draw(st.booleans())
    if third:
        ops.append({"op": "add_comp", "parent": "SrcB",
                    "comp": {"name": "InC", "kind": "RLoss", "params": {"rs": 0.05},
                             "limits": None}, "group": "", "rail": "", "cls": []})
    parents = [r1 or "InA", "SrcB"] + (["InC"] if third else [])
    if draw(st.booleans()):
        parents = [parents[1], parents[0]] + parents[2:]
    ops += [
        {"op": "add_comp", "parent": parents,
         "comp": {"name": "Mux", "kind": "PMux", "params": draw_params(draw, "PMux"),
                  "limits": None}, "group": "", "rail": draw(st.sampled_from(["", "VMUX"])),
         "cls": []},
        {"op": "add_comp", "parent": "Mux",
         "comp": {"name": "LoadM", "kind": "ILoad", "params": {"ii": 0.01}, "limits": None},
         "group": "", "rail": "", "cls": []},
    ]
    return ops


def reduce_ops(ops):
    """Smaller candidate histories: drop one operation (never the initial one)."""
    for i in range(len(ops) - 1, 0, -1):
        yield ops[:i] + ops[i + 1:]
