#!/venv/bin/python
"""Regenerates MANIFEST.json from the property modules that exist (vlib/props/cXX.py)."""
import json, os, sys
HERE = os.path.dirname(os.path.abspath(__file__))
sys.path.insert(0, HERE)
sys.path.insert(0, "/repo/src")
os.environ.setdefault("MPLBACKEND", "Agg")
from vlib import manifest_texts as T

ids = [json.loads(l)["id"] for l in open(os.path.join(HERE, "properties.jsonl"))]
checks, na = [], []
for pid in ids:
    if os.path.exists(os.path.join(HERE, "vlib", "props", pid.lower() + ".py")) and pid in T.CHECKS:
        c = T.CHECKS[pid]
        checks.append({
            "property_id": pid,
            "quick_cmd": "/venv/bin/python check.py {} --tier quick".format(pid),
            "thorough_cmd": "/venv/bin/python check.py {} --tier thorough".format(pid),
            "evidence_file": "evidence/{}.json".format(pid),
            "replay_cmd_template": "/venv/bin/python check.py {} --replay {{path}}".format(pid),
            "engine": "hypothesis-pbt",
            "level_claimed": {"category": c["level"], "text": c["text"], "design_ref": c["ref"]},
            "level_note": c["note"],
            "technique": c["technique"],
        })
    else:
        na.append({"property_id": pid, "reason": T.NA.get(pid, "check not built yet in this session; see DESIGN.md section 2 for the planned generator and oracle")})
m = {
    "version": 1,
    "setup_cmd": "/venv/bin/pip install --quiet --no-index --find-links /opt/veriftools/wheels hypothesis && /venv/bin/python -c \"import hypothesis, sysloss\"",
    "hooks": {
        "guard": "GEDDY11_SYSLOSS_VERIF",
        "enable": "no source hooks are needed: checks import sysloss from /repo/src (the working tree) and observe it through its public API; instrumentation (sweep counting, callback recording) wraps methods from the harness process",
        "baseline_off_cmd": "cd /repo && /venv/bin/python -m pytest -q -p no:cacheprovider --timeout=900",
        "source_commits": [],
        "add_only": True,
    },
    "engines": [{
        "name": "hypothesis-pbt",
        "path": "check.py",
        "serves_properties": [c["property_id"] for c in checks],
        "kind_free_text": "Hypothesis 6.168 strategies / rule-based state machines driving the real sysloss package against independent oracles (reference component laws, re-aggregation, round-trips, metamorphic relations, a model of the edit API); exhaustive enumeration on small finite axes; sharded over 16 processes in the thorough tier",
    }],
    "checks": checks,
    "notes": T.NOTES,
    "not_applicable": na,
}
json.dump(m, open(os.path.join(HERE, "MANIFEST.json"), "w"), indent=1)
print("written MANIFEST.json:", len(checks), "checks,", len(na), "not_applicable")
