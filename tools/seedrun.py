#!/venv/bin/python
"""Confirm a seeded change and run the checks against it.

    tools/seedrun.py <seed-id> [--checks C05,C08] [--tier quick] [--seeds 1,2] [--import DIR PROP]

A seeded change lives in /verif/seeded/<id>/ (patch.diff, demo.py, meta.json).  For each:
  1. scratch worktree of /repo under /tmp, `git apply patch.diff`
  2. the repository's 91 tests must pass with the change
  3. demo.py must fail with the change and pass without it
  4. every listed check is run with SYSLOSS_SRC=<worktree>/src; caught = exit 1
  5. the worktree is removed; results are written back into meta.json ("runs")
"""
import json
import os
import shutil
import subprocess
import sys
import time

HERE = os.path.dirname(os.path.dirname(os.path.abspath(__file__)))


def sh(cmd, env=None, timeout=7200):
    t0 = time.time()
    try:
        p = subprocess.run(cmd, shell=True, capture_output=True, text=True, env=env,
                           timeout=timeout)
        return p.returncode, p.stdout + p.stderr, time.time() - t0
    except subprocess.TimeoutExpired:
        return 124, "timeout", time.time() - t0


def confirm_and_run(sid, checks, tier, seeds):
    sdir = os.path.join(HERE, "seeded", sid)
    meta_p = os.path.join(sdir, "meta.json")
    meta = json.load(open(meta_p))
    wt = "/tmp/seedrun_{}".format(sid)
    sh("git -C /repo worktree remove --force {} 2>/dev/null; rm -rf {}".format(wt, wt))
    rc, out, _ = sh("git -C /repo worktree add -q {} HEAD".format(wt))
    if rc:
        print("worktree failed", out)
        return None
    try:
        env = dict(os.environ, PYTHONPATH=wt + "/src", MPLBACKEND="Agg")
        # demo on the unchanged tree
        rc0, o0, _ = sh("cd {} && /venv/bin/python {}/demo.py".format(wt, sdir), env)
        rc, out, _ = sh("git -C {} apply --whitespace=nowarn {}/patch.diff".format(wt, sdir))
        if rc:
            print(sid, "patch does not apply:", out[-300:])
            meta["confirmed"] = {"applies": False}
            json.dump(meta, open(meta_p, "w"), indent=1)
            return meta
        rct, ot, _ = sh("cd {} && /venv/bin/python -m pytest -q -p no:cacheprovider "
                        "--benchmark-disable 2>&1 | tail -2".format(wt), env)
        rc1, o1, _ = sh("cd {} && /venv/bin/python {}/demo.py".format(wt, sdir), env)
        meta["confirmed"] = {
            "applies": True,
            "tests_pass_with_change": " passed" in ot and "failed" not in ot,
            "demo_passes_without_change": rc0 == 0,
            "demo_fails_with_change": rc1 != 0,
            "tests_tail": ot.strip()[-120:],
        }
        runs = meta.setdefault("runs", [])
        for chk in checks:
            for seed in seeds:
                env2 = dict(os.environ, SYSLOSS_SRC=wt + "/src", VERIF_SEED=str(seed), VERIF_NOSHRINK="1")
                rc, out, wall = sh("cd {} && /venv/bin/python check.py {} --tier {}".format(
                    HERE, chk, tier), env2)
                first = ""
                for line in out.splitlines():
                    if "sig=" in line:
                        first = line.strip()[:240]
                        break
                runs[:] = [r for r in runs if not (r["check"] == chk and r["tier"] == tier
                                                   and r["seed"] == seed)]
                runs.append({"check": chk, "tier": tier, "seed": seed, "exit": rc,
                             "caught": rc == 1, "wall_s": round(wall, 1), "first": first})
                print(sid, chk, tier, "seed", seed, "->", "CAUGHT" if rc == 1 else
                      "missed (exit {})".format(rc), first[:150], flush=True)
        meta["breaks_property"] = meta["property"]
        meta["what_i_ran"] = (
            "tools/seedrun.py {}: scratch worktree of /repo under /tmp; git apply patch.diff; "
            "repository tests with PYTHONPATH=<worktree>/src (must pass); demo.py without the "
            "change (must pass) and with it (must fail); check.py <check> --tier {} with "
            "SYSLOSS_SRC=<worktree>/src VERIF_NOSHRINK=1; worktree removed").format(sid, tier)
        json.dump(meta, open(meta_p, "w"), indent=1)
        return meta
    finally:
        sh("git -C /repo worktree remove --force {}; rm -rf {}".format(wt, wt))


def do_import(src, prop, sid):
    """Copy an agent's seed_X directory into /verif/seeded/<sid>/ with a meta.json."""
    ddir = os.path.join(HERE, "seeded", sid)
    os.makedirs(ddir, exist_ok=True)
    shutil.copy(os.path.join(src, "patch.diff"), os.path.join(ddir, "patch.diff"))
    shutil.copy(os.path.join(src, "demo.py"), os.path.join(ddir, "demo.py"))
    notes = open(os.path.join(src, "notes.md")).read() if os.path.exists(
        os.path.join(src, "notes.md")) else ""
    meta = {"id": sid, "property": prop, "origin": "independent sub-agent (given only the "
            "property text and a scratch worktree)", "notes": notes, "runs": []}
    json.dump(meta, open(os.path.join(ddir, "meta.json"), "w"), indent=1)


def main():
    a = sys.argv[1:]
    if a and a[0] == "--import":
        do_import(a[1], a[2], a[3])
        return
    sid = a[0]
    checks, tier, seeds = None, "quick", [1]
    for x in a[1:]:
        if x.startswith("--checks="):
            checks = x.split("=")[1].split(",")
        if x.startswith("--tier="):
            tier = x.split("=")[1]
        if x.startswith("--seeds="):
            seeds = [int(s) for s in x.split("=")[1].split(",")]
    meta = json.load(open(os.path.join(HERE, "seeded", sid, "meta.json")))
    checks = checks or [meta["property"]]
    confirm_and_run(sid, checks, tier, seeds)


if __name__ == "__main__":
    main()
