#!/venv/bin/python
"""Regenerates the sensitivity tables of DESIGN.md (between the AUTOGEN markers) from
tools/planted_results.json and seeded/*/meta.json, and seeded/SUMMARY.md."""
import glob
import json
import os
import re

HERE = os.path.dirname(os.path.dirname(os.path.abspath(__file__)))


def planted_table():
    rs = json.load(open(os.path.join(HERE, "tools", "planted_results.json")))
    lines = ["| mutant | change | repo tests | checks (quick tier, seed 1) |", "|---|---|---|---|"]
    valid = caught = 0
    for r in rs:
        if r["status"].startswith("pattern"):
            continue
        if r["status"] == "tests_fail":
            res = "not counted: the repository's own tests fail"
            t = "fail"
        else:
            t = "pass"
            valid += 1
            parts = []
            anyc = False
            for k, v in r["checks"].items():
                parts.append("{} {}".format(k, "**caught**" if v["caught"] else "missed"))
                anyc = anyc or v["caught"]
            if r.get("equivalent"):
                parts.append("(equivalent mutant: no observable change)")
                valid -= 1
            elif anyc:
                caught += 1
            res = ", ".join(parts)
        lines.append("| {} | {} | {} | {} |".format(r["id"], r["what"], t, res))
    lines.append("")
    lines.append("Valid (test-passing, non-equivalent) planted mutants: {}; caught by at least "
                 "one listed check: {}.".format(valid, caught))
    return "\n".join(lines)


def seeded_table():
    lines = ["| seed | property | what it needs to manifest (from the author's notes) | "
             "confirmed | checks run -> result |", "|---|---|---|---|---|"]
    n = c = 0
    summ = []
    for p in sorted(glob.glob(os.path.join(HERE, "seeded", "*", "meta.json"))):
        m = json.load(open(p))
        conf = m.get("confirmed", {})
        ok = (conf.get("applies") and conf.get("tests_pass_with_change")
              and conf.get("demo_passes_without_change") and conf.get("demo_fails_with_change"))
        if not ok:
            status = "NOT CONFIRMED " + json.dumps(conf)
        else:
            status = "yes"
            n += 1
        runs = {}
        for r in m.get("runs", []):
            key = r["check"]
            runs.setdefault(key, []).append(r)
        parts = []
        own = False
        for chk, rr in runs.items():
            cs = [x for x in rr if x["caught"]]
            parts.append("{}: {}".format(chk, "**caught** ({})".format(
                ", ".join("{} seed {}".format(x["tier"], x["seed"]) for x in cs)) if cs
                else "missed ({})".format(", ".join("{} seed {}".format(x["tier"], x["seed"])
                                                     for x in rr))))
            if cs and chk == m["property"]:
                own = True
        if ok and own:
            c += 1
        needs = m.get("needs") or _needs(m.get("notes", ""))
        if m.get("superseded"):
            parts.append("(superseded: unreachable since fix F25)")
        if m.get("first_runs") is not None:
            fr = [x for x in m["first_runs"] if x["check"] == m["property"]]
            first = "first run: " + ("caught" if any(x["caught"] for x in fr) else "missed")
            parts.insert(0, first)
        lines.append("| {} | {} | {} | {} | {} |".format(m["id"], m["property"], needs, status,
                                                         "; ".join(parts)))
        summ.append(m)
    lines.append("")
    lines.append("Confirmed seeded changes: {}; caught by the check of the property they were "
                 "written against: {}.".format(n, c))
    return "\n".join(lines)


def _needs(notes):
    notes = notes.replace("\n", " ").replace("|", "/")
    m = re.search(r"(?i)(trigger|manifest|needs?)[^.]*\.", notes)
    s = m.group(0) if m else notes[:160]
    return s[:220]


def main():
    dp = os.path.join(HERE, "DESIGN.md")
    s = open(dp).read()
    for tag, fn in (("PLANTED", planted_table), ("SEEDED", seeded_table)):
        a, b = "<!-- AUTOGEN:{}:BEGIN -->".format(tag), "<!-- AUTOGEN:{}:END -->".format(tag)
        if a in s and b in s:
            s = s[:s.index(a) + len(a)] + "\n" + fn() + "\n" + s[s.index(b):]
    open(dp, "w").write(s)
    open(os.path.join(HERE, "seeded", "SUMMARY.md"), "w").write(
        "# Seeded changes (independent sub-agents)\n\n" + seeded_table() + "\n")
    print("DESIGN.md tables regenerated")


if __name__ == "__main__":
    main()
