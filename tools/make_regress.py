#!/venv/bin/python
"""Builds replays/<ID>/regress/<finding>.json: one small hand-minimised case per repaired
finding, checked to FAIL on the original tree (commit given as argv[1], checked out into a
scratch worktree) and to PASS on the current tree.  These files are the seconds-long replay
tier that every check runs first (runner.run_regressions)."""
import json
import os
import subprocess
import sys

HERE = os.path.dirname(os.path.dirname(os.path.abspath(__file__)))
sys.path.insert(0, HERE)


def node(name, kind, parents, params, **kw):
    n = {"name": name, "kind": kind, "params": params, "limits": None, "parents": parents,
         "pref": ["name"] * len(parents), "group": "", "rail": "", "pconf": None}
    n.update(kw)
    return n


def spec(nodes, phases=None):
    return {"name": "regress", "phases": phases or {}, "nodes": nodes}


def c(name, kind, **p):
    return {"name": name, "kind": kind, "params": p, "limits": None}


INIT = {"op": "init", "comp": c("Src0", "Source", vo=12.0), "group": "", "rail": "",
        "warn_error": False}

CASES = {}


def case(pid, fid, stream, data):
    CASES[(pid, fid)] = {"property": pid, "finding": fid, "stream": stream, "case": data}


# F3: dead load next to a heated live branch reports peak temperature 0 instead of ambient
case("C02", "F3", "static", {"ta": 40.0, "spec": spec([
    node("V", "Source", [], {"vo": 5.0}), node("V0", "Source", [], {"vo": 0.0}),
    node("R", "RLoss", ["V"], {"rs": 1.0, "rt": 10.0}), node("L", "ILoad", ["R"], {"ii": 0.1}),
    node("Dead", "PLoad", ["V0"], {"pwr": 1.0, "rt": 5.0})])})
# F4: mux fed through a switch names the switch's parent
case("C05", "F4", "mux", spec([
    node("S0", "Source", [], {"vo": 5.0}), node("S1", "Source", [], {"vo": 3.3}),
    node("A", "PSwitch", ["S0"], {"rs": 0.1}),
    node("M", "PMux", ["A", "S1"], {"rs": 0.05}), node("L", "ILoad", ["M"], {"ii": 0.1})],
    {"p0": 1.0, "p1": 2.0}))
# F12b: phases set through the rail, then through the name
case("C06", "F12b", "rail_addressed", {"pick": 0, "spec": spec([
    node("V", "Source", [], {"vo": 12.0}),
    node("Buck", "Converter", ["V"], {"vo": 3.3, "eff": 0.9}, rail="3V3", pconf=["a"]),
    node("L", "ILoad", ["Buck"], {"ii": 0.1})], {"a": 1.0, "b": 2.0})})
# F5: child of the first source emitted after the mux rows
case("C07", "F5", "static", {"order": [0, 1, 2, 3], "spec": spec([
    node("Vbat0", "Source", [], {"vo": 0.0}), node("Vbat1", "Source", [], {"vo": -3.3}),
    node("Heater", "RLoad", ["Vbat0"], {"rs": 3.3, "loss": True}),
    node("Mux", "PMux", ["Vbat0", "Vbat1"], {"rs": [0.0, 0.0]})])})
# F6: single member of a rail with a warning
case("C08", "F6", "static", spec([
    node("V", "Source", [], {"vo": 5.0}, rail="5V rail"),
    node("L", "ILoad", ["V"], {"ii": 0.1}, limits={"vi": [6.0, 7.0]})]))
# F19: rail feeding the mux in one phase only
case("C08", "F19", "phases", spec([
    node("V", "Source", [], {"vo": -3.3}),
    node("LDO", "LinReg", ["V"], {"vo": 3.3}, rail="3.3V rail", pconf=["sleep"]),
    node("Mux", "PMux", ["LDO", "V"], {"rs": 1.0})], {"sleep": 1.0, "active": 1.0}))
# F9: diode bridge round trip
case("C12", "F9", "static", {"indent": 4, "version": "same", "spec": spec([
    node("V", "Source", [], {"vo": 12.0}), node("B", "Rectifier", ["V"], {"vdrop": 0.5}),
    node("L", "ILoad", ["B"], {"ii": 0.2})])})
# F21: phases() Domain after reload
case("C12", "F21", "phases", {"indent": 4, "version": "same", "spec": spec([
    node("S0", "Source", [], {"vo": 5.0}), node("S1", "Source", [], {"vo": 3.3}),
    node("L0", "ILoad", ["S0"], {"ii": 0.1}),
    node("M", "PMux", ["S1", "S0"], {"rs": 0.1}), node("L", "ILoad", ["M"], {"ii": 0.1})],
    {"a": 1.0, "b": 2.0})})
# C14 histories
case("C14", "F12a", "histories", [INIT,
     {"op": "add_comp", "parent": "Src0", "comp": c("R1", "RLoss", rs=0.1), "group": "",
      "rail": "railR", "cls": []},
     {"op": "del_comp", "target": "railR", "del_childs": False, "cls": []}])
case("C14", "F10", "histories", [INIT,
     {"op": "change_comp", "target": "Src0", "comp": c("Src0", "Source", vo=5.0), "group": "",
      "rail": "Src0", "cls": []}])
case("C14", "F22", "histories", [INIT,
     {"op": "add_comp", "parent": ["Src0"], "comp": c("M1", "PMux"), "group": "", "rail": "",
      "cls": []},
     {"op": "add_comp", "parent": "Src0", "comp": c("R2", "RLoss", rs=0.2), "group": "",
      "rail": "", "cls": []},
     {"op": "change_comp", "target": "R2", "comp": c("R2", "PMux"), "group": "", "rail": "",
      "cls": []}])
case("C14", "F11", "histories", [INIT,
     {"op": "add_comp", "parent": "Src0", "comp": c("R1", "RLoss", rs=0.1), "group": "",
      "rail": "", "cls": []},
     {"op": "add_comp", "parent": "R1", "comp": c("L1", "ILoad", ii=0.01), "group": "",
      "rail": "", "cls": []},
     {"op": "change_comp", "target": "R1", "comp": c("R1", "PLoad", pwr=0.1), "group": "",
      "rail": "", "cls": []}])
# C15
case("C15", "F12a", "histories", CASES[("C14", "F12a")]["case"])
case("C15", "F23", "histories", [dict(INIT, warn_error=True),
     {"op": "add_comp", "parent": "Src0", "comp": c("L1", "PLoad", pwr=0.1), "group": "",
      "rail": "rail3", "cls": []}])
# C16
case("C16", "F15", "histories", [INIT,
     {"op": "set_sys_phases", "phases": {"sleep": 1.0, "active": 2.0}, "cls": []},
     {"op": "add_comp", "parent": "Src0", "comp": c("B", "Rectifier", vdrop=0.1), "group": "",
      "rail": "", "cls": []}])
case("C16", "F13", "histories", [INIT,
     {"op": "add_source", "comp": c("S1", "Source", vo=5.0), "group": "", "rail": "", "cls": []},
     {"op": "add_comp", "parent": ["Src0", "S1"], "comp": c("M", "PMux", rs=0.1), "group": "",
      "rail": "", "cls": []},
     {"op": "add_comp", "parent": "M", "comp": c("L", "ILoad", ii=0.01), "group": "",
      "rail": "", "cls": []},
     {"op": "change_comp", "target": "Src0", "comp": c("Main", "Source", vo=12.0), "group": "",
      "rail": "", "cls": []}])
# C17
case("C17", "F14", "batt_faults", {"steps": 3, "exc": "Injected", "battery": 0, "by_rail": False,
     "spec": spec([node("Batt", "Source", [], {"vo": 3.7, "rs": 0.1}),
                   node("L", "ILoad", ["Batt"], {"ii": 0.05})])})


def run_on(src, rec):
    """exit code of a replay of `rec` with the library taken from `src`."""
    tmp = os.path.join(HERE, "scratch", "regress_tmp.json")
    os.makedirs(os.path.dirname(tmp), exist_ok=True)
    json.dump(rec, open(tmp, "w"))
    env = dict(os.environ, SYSLOSS_SRC=src)
    p = subprocess.run("cd {} && /venv/bin/python check.py {} --replay {}".format(
        HERE, rec["property"], tmp), shell=True, capture_output=True, text=True, env=env)
    return p.returncode, (p.stdout + p.stderr)[-400:]


def main():
    base = sys.argv[1] if len(sys.argv) > 1 else "41e59e1"
    wt = "/tmp/regress_base"
    subprocess.run("git -C /repo worktree remove --force {0} 2>/dev/null; rm -rf {0}; "
                   "git -C /repo worktree add -q {0} {1}".format(wt, base), shell=True)
    try:
        for (pid, fid), rec in sorted(CASES.items()):
            rc_old, out_old = run_on(wt + "/src", rec)
            rc_new, out_new = run_on("/repo/src", rec)
            ok = rc_old == 1 and rc_new == 0
            print(pid, fid, "original tree exit", rc_old, "| current tree exit", rc_new,
                  "OK" if ok else "** NOT A REGRESSION CASE **")
            if not ok:
                print("   old:", out_old.strip()[-300:].replace("\n", " | "))
                print("   new:", out_new.strip()[-300:].replace("\n", " | "))
                continue
            d = os.path.join(HERE, "replays", pid, "regress")
            os.makedirs(d, exist_ok=True)
            json.dump(rec, open(os.path.join(d, "{}.json".format(fid)), "w"), indent=1)
    finally:
        subprocess.run("git -C /repo worktree remove --force {}".format(wt), shell=True)


if __name__ == "__main__":
    main()
