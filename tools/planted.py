#!/venv/bin/python
"""Sensitivity run: planted mutants (each keeps the repo's 91 tests green) vs the checks.

    tools/planted.py [ids...] [--jobs N] [--tier quick]

For every mutant: copy /repo/src to a scratch dir under /tmp, apply the replacement (CRLF
aware), run the repository's test suite against the copy (mutants that fail it are reported
as 'tests_fail' and not counted), run the listed checks with SYSLOSS_SRC pointing to the
copy, record caught / missed and the wall time, delete the scratch dir.  Results go to
tools/planted_results.json (committed; summarised in DESIGN.md).
"""
import json
import os
import shutil
import subprocess
import sys
import time
from concurrent.futures import ThreadPoolExecutor

HERE = os.path.dirname(os.path.dirname(os.path.abspath(__file__)))

# (id, checks expected to catch it, file, old, new, description)
M = []


def m(mid, checks, fname, old, new, what):
    M.append({"id": mid, "checks": checks, "file": fname, "old": old, "new": new, "what": what})


C, SY, D, U = "components.py", "system.py", "diagram.py", "utils.py"

# ---- C01 -------------------------------------------------------------------------------------
m("m01a", ["C01", "C05"], SY,
  "                if pp[pinp] == node:\n                    io += i[c]\n",
  "                io += i[c]\n",
  "_child_curr counts the mux current for every declared input")
m("m01b", ["C01", "C10"], C,
  "        ve = vi[0] * self._ipr._interp(abs(io), abs(vi[0]))\n",
  "        ve = vi[0] * self._ipr._interp(abs(vi[0]), abs(io))\n",
  "Converter input current looks up efficiency with (vi, io) swapped (invisible with constant eff)")
m("m01c", ["C01"], C,
  "        i = io + self._ipr._interp(abs(io), abs(vi[0]))\n        if phase_conf and phase not in phase_conf:\n            i = self._params[\"iis\"]\n        return i\n\n    def _solv_outp_volt(self, vi, ii, io, phase, phase_conf=[], pstate={}):\n        \"\"\"Calculate PSwitch output voltage",
  "        i = io + self._ipr._interp(abs(io), abs(vi[0]))\n        if io == 0.0:\n            i = 0.0\n        if phase_conf and phase not in phase_conf:\n            i = self._params[\"iis\"]\n        return i\n\n    def _solv_outp_volt(self, vi, ii, io, phase, phase_conf=[], pstate={}):\n        \"\"\"Calculate PSwitch output voltage",
  "PSwitch draws no ground current when unloaded")
m("m01d", ["C01"], C,
  "            return self._params[\"vo\"] * 0 + v, STATE_DEFAULT\n",
  "", "placeholder (never matches)")
m("m01e", ["C01", "C02"], C,
  "        return abs(self._params[\"vo\"] * io / ve)\n",
  "        return abs(self._params[\"vo\"] * io / ve) + self._params[\"iq\"]\n",
  "Converter adds iq to the input current also under load")
# ---- C02 -------------------------------------------------------------------------------------
m("m02a", ["C02"], C,
  "        if abs(io) > 0.0:\n            loss += (abs(vi) - abs(v)) * io\n",
  "        if abs(io) > 0.0:\n            loss += (abs(vi) - abs(self._params[\"vo\"])) * io\n",
  "LinReg loss uses the nominal vo instead of the clamped output (visible in drop-out)")
m("m02b", ["C02"], C,
  "            loss += 2 * self._params[\"rs\"] * abs(io) ** 2\n",
  "            loss += self._params[\"rs\"] * abs(io) ** 2\n",
  "MOSFET bridge loss counts one rs instead of two (voltage law untouched)")
m("m02c", ["C02", "C09"], C,
  "        tr = loss * self._params[\"rt\"]\n        return pwr, loss, _get_eff(pwr, pwr - loss, 0.0), tr, tr + ta\n\n    def _get_annot(self):\n        \"\"\"Get PSwitch",
  "        tr = loss * self._params[\"rt\"]\n        return pwr, loss, _get_eff(pwr, pwr - loss, 0.0), tr, tr\n\n    def _get_annot(self):\n        \"\"\"Get PSwitch",
  "PSwitch peak temperature drops the ambient")
m("m02d", ["C02"], C,
  "        if self._params[\"loss\"]:\n            return 0.0, pi, 0.0, tr, tr + ta\n",
  "        if self._params[\"loss\"]:\n            return pi, pi, 0.0, tr, tr + ta\n",
  "a load counted as loss reports its consumption as Power and as Loss")
# ---- C03 -------------------------------------------------------------------------------------
m("m03a", ["C03", "C01"], SY,
  "            if np.allclose(np.array(v), np.array(vi), rtol=vtol) and np.allclose(\n",
  "            if np.allclose(np.array(v), np.array(vi), rtol=vtol) or np.allclose(\n",
  "convergence accepts voltages OR currents having settled")
m("m03b", ["C03"], SY,
  "            if iters > maxiter:\n                raise RuntimeError(\n",
  "            if iters > maxiter + 1:\n                raise RuntimeError(\n",
  "maxiter guard off by one: an unconverged iterate is returned")
m("m03c", ["C03"], C,
  "        vo = vi[0] - self._params[\"rs\"] * io * np.sign(vi[0])\n        if np.sign(vo) == np.sign(vi[0]):\n            return vo, STATE_DEFAULT\n",
  "        vo = vi[0] - self._params[\"rs\"] * io * np.sign(vi[0])\n        if np.sign(vo) == np.sign(vi[0]) or phase != \"\":\n            return vo, STATE_DEFAULT\n",
  "RLoss polarity guard skipped when solving a named phase")
m("m03d", ["C03"], SY,
  "            if np.sign(v[n]) != np.sign(vin):\n",
  "            if np.sign(v[n]) != np.sign(vin) and ctype != \"PMUX\":\n",
  "steady-state polarity check skips the PMux")
# ---- C04 -------------------------------------------------------------------------------------
m("m04a", ["C04"], C,
  "    if abs(vo) == 0.0 or _get_lopt(pstate, \"off\", psidx, False):\n        return 0.0\n    return i\n",
  "    if _get_lopt(pstate, \"off\", psidx, False):\n        return 0.0\n    return i\n",
  "_calc_inp_current ignores a 0 V input")
m("m04b", ["C04", "C06"], C,
  "        if phase_conf and phase not in phase_conf:\n            return self._params[\"iis\"]\n        if io == 0.0:\n            return self._params[\"iq\"]\n",
  "        if io == 0.0:\n            return self._params[\"iq\"]\n        if phase_conf and phase not in phase_conf:\n            return self._params[\"iis\"]\n",
  "inactive converter draws iq instead of iis (its output current is 0)")
m("m04c", ["C04"], C,
  "        if abs(vi[0]) == 0.0 or _get_lopt(pstate, \"off\", 0, False):\n            return 0.0\n        i = io + self._ipr._interp(abs(io), abs(vi[0]))\n        if phase_conf and phase not in phase_conf:\n            i = self._params[\"iis\"]\n        return i\n\n    def _solv_outp_volt(self, vi, ii, io, phase, phase_conf=[], pstate={}):\n        \"\"\"Calculate LinReg",
  "        if abs(vi[0]) == 0.0:\n            return 0.0\n        i = io + self._ipr._interp(abs(io), abs(vi[0]))\n        if phase_conf and phase not in phase_conf:\n            i = self._params[\"iis\"]\n        return i\n\n    def _solv_outp_volt(self, vi, ii, io, phase, phase_conf=[], pstate={}):\n        \"\"\"Calculate LinReg",
  "LinReg input current ignores the parent's off flag (only the voltage)")
# ---- C05 -------------------------------------------------------------------------------------
m("m05a", ["C05", "C04"], C,
  "            if pstate[\"off\"][i] == False and abs(vi[i]) != 0.0:\n",
  "            if pstate[\"off\"][i] == False:\n",
  "PMux priority ignores the input voltage (only the off flag)")
m("m05b", ["C05", "C01"], C,
  "            r = abs(self._params[\"rs\"][pinp])\n",
  "            r = abs(self._params[\"rs\"][0])\n",
  "PMux always uses the first entry of a per-input rs list")
m("m05c", ["C05", "C07"], SY,
  "                if abs(vin[i]) != 0.0:\n                    idx = i\n",
  "                if abs(vin[i]) != 0.0:\n                    idx = 0\n",
  "PMux domain always taken from input 0")
m("m05d", ["C05", "C08"], SY,
  "                        pn = self._g[p[pinp]]._params[\"name\"]\n",
  "                        pn = self._g[p[0]]._params[\"name\"]\n",
  "PMux row always names its first declared input as parent")
# ---- C06 -------------------------------------------------------------------------------------
m("m06a", ["C06"], C,
  "        elif phase not in phase_conf:\n            p = self._params[\"pwrs\"]\n",
  "        elif phase not in phase_conf:\n            p = self._params[\"pwr\"]\n",
  "PLoad uses pwr instead of the sleep power in phases absent from its table")
m("m06b", ["C06"], C,
  "    def _solv_outp_volt(self, vi, ii, io, phase, phase_conf={}, pstate={}):\n        \"\"\"Calculate Source output voltage from vi, ii and io\"\"\"\n        if phase_conf and phase not in phase_conf:\n            return 0.0, STATE_OFF\n",
  "    def _solv_outp_volt(self, vi, ii, io, phase, phase_conf={}, pstate={}):\n        \"\"\"Calculate Source output voltage from vi, ii and io\"\"\"\n        if phase_conf and phase not in phase_conf and len(phase_conf) > 1:\n            return 0.0, STATE_OFF\n",
  "a Source with a single listed phase stays on in the other phases (sweep), though it starts off")
m("m06c", ["C06"], C,
  "        else:\n            r = phase_conf[phase]\n        return abs(vi[0]) / r\n",
  "        else:\n            r = phase_conf.get(phase, r) if len(phase_conf) < 3 else r\n        return abs(vi[0]) / r\n",
  "RLoad ignores its phase table when it has three or more entries")
# ---- C07 -------------------------------------------------------------------------------------
m("m07a", ["C07"], SY,
  "            aloss = np.sum(np.multiply(np.asarray(ploss), np.asarray(ptime))) / ttot\n",
  "            aloss = np.mean(np.asarray(ploss))\n",
  "average loss unweighted")
m("m07b", ["C07"], SY,
  "                loss = df[df.Domain == src][\"Loss (W)\"].sum()\n",
  "                loss = df[(df.Domain == src) & (df.Type != \"LOAD\")][\"Loss (W)\"].sum()\n",
  "Subsystem loss leaves out loads that are counted as loss")
m("m07c", ["C07"], SY,
  "        cycles = 24 * 3600.0 / tot_time\n",
  "        cycles = 24 * 3600.0 / max(tot_time, 1.0)\n",
  "energy wrong when the phase durations sum to less than 1 s")
# ---- C08 -------------------------------------------------------------------------------------
m("m08a", ["C08"], SY,
  "                        iin += [sum(df[filt][\"Iin (A)\"])]\n",
  "                        iin += [sum(df[filt][\"Iout (A)\"])]\n",
  "rail current sums Iout instead of Iin")
m("m08b", ["C08"], SY,
  "                        vin += [df[filt][\"Vin (V)\"].tolist()[0]]\n",
  "                        vin += [df[filt][\"Vout (V)\"].tolist()[0]]\n",
  "rail voltage from the first member's Vout")
m("m08c", ["C08"], SY,
  "                            filt = (df[\"Rail in\"] == r) & (df[\"Phase\"] == ph)\n",
  "                            filt = (df[\"Rail in\"] == r) & (df[\"Phase\"] >= ph)\n",
  "phase filter of the rail report is an ordering comparison")
# ---- C09 -------------------------------------------------------------------------------------
m("m09a", ["C09"], C,
  "            if abs(checks[key]) > abs(lim[1]) or abs(checks[key]) < abs(lim[0]):\n",
  "            if abs(checks[key]) >= abs(lim[1]) or abs(checks[key]) < abs(lim[0]):\n",
  "upper limit compared with >= (fires exactly on the limit)")
m("m09b", ["C09"], C,
  "            if abs(checks[key]) > abs(lim[1]) or abs(checks[key]) < abs(lim[0]):\n",
  "            if checks[key] > abs(lim[1]) or abs(checks[key]) < abs(lim[0]):\n",
  "magnitude dropped on the upper comparison (negative rails never exceed)")
m("m09c", ["C09"], C,
  "        return [\"vi\", \"vo\", \"ii\", \"io\", \"pi\", \"po\", \"pl\", \"tr\", \"tp\"]\n",
  "        return [\"vi\", \"vo\", \"vd\", \"ii\", \"io\", \"pi\", \"po\", \"pl\", \"tr\", \"tp\"]\n",
  "vd made applicable to Converter")
m("m09d", ["C09"], SY,
  "                if w != \"\":\n                    dwarns[dname] = 1\n",
  "                if w != \"\" and self._g[n]._component_type.name != \"LOAD\":\n                    dwarns[dname] = 1\n",
  "load warnings not rolled up to the Subsystem row")
# ---- C10 -------------------------------------------------------------------------------------
m("m10a", ["C10"], C,
  "                    vd = np.asarray(vdrop[\"vdrop\"]).reshape(1, -1)[0].tolist()\n                self._ipr = _Interp2d(cur, volt, vd)\n            self._params[\"vdrop\"] = vdrop\n        else:\n            self._params[\"vdrop\"] = abs(vdrop)\n            self._ipr = _Interp0d(abs(vdrop))\n        self._limits = _check_limits(limits)\n",
  "                    vd = np.asarray(vdrop[\"vdrop\"]).reshape(1, -1, order=\"F\")[0].tolist()\n                self._ipr = _Interp2d(cur, volt, vd)\n            self._params[\"vdrop\"] = vdrop\n        else:\n            self._params[\"vdrop\"] = abs(vdrop)\n            self._ipr = _Interp0d(abs(vdrop))\n        self._limits = _check_limits(limits)\n",
  "VLoss 2-D table flattened column-major")
m("m10b", ["C10"], C,
  "        xc = min(max(x, self._xmin), self._xmax)\n",
  "        xc = min(max(x, self._xmin), self._xmax * 1.0000001)\n",
  "2-D clamp lets io slightly exceed the table (NaN above the table)")
m("m10c", ["C10"], C,
  "        return np.interp(np.abs(x), self._x, self._fx)\n",
  "        return np.interp(np.abs(x), self._x, self._fx, left=0.0)\n",
  "1-D table returns 0 below the first io point instead of clamping")
# ---- C11 -------------------------------------------------------------------------------------
m("m11a", ["C11"], C,
  "        self._params[\"rs\"] = abs(rs)\n        self._params[\"rt\"] = abs(rt)\n        self._limits = _check_limits(limits)\n        self._ipr = None\n\n    def _solv_inp_curr(self, vi, vo, io, phase, phase_conf={}, pstate={}):\n        \"\"\"Calculate RLoss",
  "        self._params[\"rs\"] = rs\n        self._params[\"rt\"] = abs(rt)\n        self._limits = _check_limits(limits)\n        self._ipr = None\n\n    def _solv_inp_curr(self, vi, vo, io, phase, phase_conf={}, pstate={}):\n        \"\"\"Calculate RLoss",
  "RLoss keeps the sign of rs")
m("m11b", ["C11"], C,
  "            if np.max(eff[\"eff\"]) > 1.0:\n                raise ValueError(\"Efficiency values must be <= 1.0\")\n",
  "            if np.max(eff[\"eff\"][0]) > 1.0:\n                raise ValueError(\"Efficiency values must be <= 1.0\")\n",
  "efficiency table range check looks at the first vi row only")
m("m11c", ["C11"], C,
  "    if not np.all(np.diff(idata[\"io\"]) > 0):\n",
  "    if not np.all(np.diff(idata[\"io\"]) >= 0):\n",
  "io axis may contain duplicates")
m("m11d", ["C11"], C,
  "                if len(limits[key]) != 2 or not (\n",
  "                if len(limits[key]) < 2 or not (\n",
  "limits lists longer than two accepted")
# ---- C12 -------------------------------------------------------------------------------------
m("m12a", ["C12"], SY,
  "                                    eff=eff,\n                                    iq=iq,\n                                    limits=limits,\n                                    iis=iis,\n",
  "                                    eff=eff,\n                                    iq=iq,\n                                    limits=limits,\n                                    iis=iq,\n",
  "loader gives a Converter iis = iq")
m("m12b", ["C12"], SY,
  "                                    limits=limits,\n                                    iis=iis,\n                                    rt=rt,\n                                ),\n                            )\n                        elif c[\"type\"] == \"RECTIFIER\":\n",
  "                                    limits=limits,\n                                    iis=iis,\n                                ),\n                            )\n                        elif c[\"type\"] == \"RECTIFIER\":\n",
  "loader drops rt of a PSwitch")
m("m12c", ["C12"], SY,
  "        if version.parse(sysloss.__version__) < version.parse(ver):\n",
  "        if version.parse(sysloss.__version__).release[:2] < version.parse(ver).release[:2]:\n",
  "version gate ignores the patch level")
m("m12d", ["C12"], SY,
  "                    self.add_comp(\n                        sys[entires[e]][\"parents\"],\n",
  "                    self.add_comp(\n                        sorted(sys[entires[e]][\"parents\"]),\n",
  "loader sorts the PMux inputs by name")
# ---- C13 -------------------------------------------------------------------------------------
m("m13a", ["C13"], C,
  "            \"iis\": {\"typ\": [int, float], \"opt\": True, \"def\": IIS_DEFAULT},\n            \"rt\": {\"typ\": [int, float], \"opt\": True, \"def\": RT_DEFAULT},\n        },\n    }\n\n    def __init__(\n        self,\n        name: str,\n        *,\n        rs: float = 0.0,\n        ig: float = 0.0,\n        limits: dict = LIMITS_DEFAULT,\n        iis: float = 0.0,\n        rt: float = 0.0,\n    ):\n        self._params = {}\n        self._params[\"name\"] = name\n        self._params[\"rs\"] = abs(rs)\n",
  "            \"iis\": {\"typ\": [int, float], \"opt\": True, \"def\": 1.0e-6},\n            \"rt\": {\"typ\": [int, float], \"opt\": True, \"def\": RT_DEFAULT},\n        },\n    }\n\n    def __init__(\n        self,\n        name: str,\n        *,\n        rs: float = 0.0,\n        ig: float = 0.0,\n        limits: dict = LIMITS_DEFAULT,\n        iis: float = 0.0,\n        rt: float = 0.0,\n    ):\n        self._params = {}\n        self._params[\"name\"] = name\n        self._params[\"rs\"] = abs(rs)\n",
  "PSwitch TOML default for iis differs from the constructor default")
m("m13b", ["C13"], C,
  "            ptyp = dict if isinstance(pval, dict) else type(pval)\n            if ptyp not in cls._cparams[\"params\"][key][\"typ\"]:\n",
  "            if not isinstance(pval, tuple(cls._cparams[\"params\"][key][\"typ\"])):\n",
  "type gate uses isinstance: a bool passes as a number")
m("m13c", ["C13"], C,
  "        return cls(name, vo=v, vdrop=vd, ig=ig, limits=lim, iis=iis, rt=rt)\n",
  "        return cls(name, vo=v, vdrop=vd, ig=ig, limits=lim, iis=iis)\n",
  "LinReg loader forgets rt")
# ---- C14 / C15 / C16 -------------------------------------------------------------------------
m("m14a", ["C14"], SY,
  "            if (\n                rail in self._g.attrs[\"nodes\"].keys()\n                or rail in self._g.attrs[\"rails\"].values()\n            ):\n                raise ValueError('Rail name \"{}\" is already used!'.format(name))\n",
  "            if rail in self._g.attrs[\"rails\"].values():\n                raise ValueError('Rail name \"{}\" is already used!'.format(name))\n",
  "_chk_name no longer compares a new rail with the component names")
m("m14b", ["C14"], SY,
  "        if comp._component_type.name == \"PMUX\":\n            for key in self._g.attrs[\"nodes\"]:\n",
  "        if comp._component_type.name == \"PMUX\" and len(plist) > 1:\n            for key in self._g.attrs[\"nodes\"]:\n",
  "single-mux rule only applied to muxes with several inputs")
m("m14c", ["C14", "C15"], SY,
  "            if len(self._get_sources()) < 2:\n                raise ValueError(\"Cannot delete the last source component!\")\n",
  "            if len(self._get_sources()) < 2 and self._g.out_degree(eidx) > 0:\n                raise ValueError(\"Cannot delete the last source component!\")\n",
  "the last source can be deleted when it has no children")
m("m15a", ["C15", "C14"], SY,
  "        self._chk_name(comp._params[\"name\"], rail)\n        # check that parent(s) allows component type as child\n        pidx = []\n",
  "        self._chk_name(comp._params[\"name\"], rail)\n        self._g.attrs[\"groups\"][comp._params[\"name\"]] = group\n        # check that parent(s) allows component type as child\n        pidx = []\n",
  "add_comp registers the group before the child-type check")
m("m15b", ["C15"], SY,
  "        if \"N/A\" in list(phases.keys()):\n            raise ValueError('\"N/A\" is a reserved name!')\n        self._g.attrs[\"phases\"] = phases\n",
  "        self._g.attrs[\"phases\"] = phases\n        if \"N/A\" in list(phases.keys()):\n            raise ValueError('\"N/A\" is a reserved name!')\n",
  "set_sys_phases assigns before rejecting the reserved name")
m("m15c", ["C15"], SY,
  "        if isinstance(self._g[cidx], RLoss) or isinstance(self._g[cidx], VLoss):\n            raise ValueError(\"Loss components does not support load phases!\")\n\n",
  "        self._g.attrs[\"phase_conf\"][self._g[cidx]._params[\"name\"]] = phase_conf\n        if isinstance(self._g[cidx], RLoss) or isinstance(self._g[cidx], VLoss):\n            raise ValueError(\"Loss components does not support load phases!\")\n\n",
  "set_comp_phases stores the configuration before rejecting loss components")
m("m16a", ["C16"], SY,
  "        # delete old phase config and set new default\n        del [self._g.attrs[\"phase_conf\"][name]]\n        self._g.attrs[\"phase_conf\"][comp._params[\"name\"]] = {}\n",
  "        # delete old phase config and set new default\n        old_conf = self._g.attrs[\"phase_conf\"].pop(name)\n        self._g.attrs[\"phase_conf\"][comp._params[\"name\"]] = old_conf\n",
  "change_comp keeps the old phase configuration")
m("m16b", ["C16"], SY,
  "        # replace node name in the lists of parent names\n        for key in self._g.attrs[\"pnames\"]:\n",
  "        # replace node name in the lists of parent names\n        for key in []:\n",
  "renaming a PMux input no longer updates the input list (F13 back)")
m("m16c", ["C16", "C07"], SY,
  "                if self._parents[n] != -1:\n                    dname = ndomain[self._parents[n][0]]\n                dname = self._find_domain(n, dname, v)\n",
  "                dname = self._find_domain(n, dname, v)\n",
  "domain carried over from the previous row again (F5 back)")
m("m16d", ["C16"], SY,
  "        self._g.attrs[\"groups\"][comp._params[\"name\"]] = group\n        # delete old rail and set new\n",
  "        self._g.attrs[\"groups\"][comp._params[\"name\"]] = group or self._g.attrs[\"groups\"].get(name, \"\")\n        # delete old rail and set new\n",
  "harmless-looking: change_comp group handling (no effect; control)")
# ---- C17 -------------------------------------------------------------------------------------
m("m17a", ["C17"], SY,
  "            self._g[pidx]._params[\"vo\"] = vo_org\n            self._g[pidx]._params[\"rs\"] = rs_org\n",
  "            self._g[pidx]._params[\"vo\"] = vo_org\n",
  "batt_life restores vo but not rs")
m("m17b", ["C17", "C19"], D,
  "        bd_conf = copy.deepcopy(config)\n",
  "        bd_conf = copy.copy(config)\n        bd_conf[\"node\"].setdefault(\"Scale\", {})\n",
  "_diag works on a shallow copy of the caller's configuration and adds a key")
m("m17c", ["C17"], SY,
  "        self._rel_update()\n        phase_list = [\"\"]\n        if phase != \"\":\n",
  "        self._rel_update()\n        if tags != {}:\n            tags.setdefault(\"System\", self._g.attrs[\"name\"])\n        phase_list = [\"\"]\n        if phase != \"\":\n",
  "solve() adds a key to the caller's tags dict")
# ---- C18 -------------------------------------------------------------------------------------
m("m18a", ["C18"], SY,
  "                    _, i, _, _ = self._solve(phase=phase_list[phidx])\n",
  "                    _, i, _, _ = self._solve(phase=phase_list[phidx - 1])\n",
  "batt_life solves the previous phase")
m("m18b", ["C18"], SY,
  "                    if bstate[0] > 0.0 and bstate[1] > cutoff:\n                        t += [t[-1] + deltat]\n",
  "                    if bstate[0] > 0.0 and bstate[1] >= cutoff:\n                        t += [t[-1] + deltat]\n",
  "a state exactly at the cutoff is logged")
m("m18c", ["C18"], SY,
  "                    bstate = dfunc(deltat, i[pidx])\n",
  "                    bstate = dfunc(deltat, i[0])\n",
  "batt_life hands the current of node 0 instead of the battery's")
# ---- C19 -------------------------------------------------------------------------------------
m("m19a", ["C19"], D,
  "        graph.add_edge(pydot.Edge(p[ep[0]], p[ep[1]], **bd_conf[\"edge\"]))\n",
  "        graph.add_edge(pydot.Edge(p[ep[1]], p[ep[0]], **bd_conf[\"edge\"]))\n",
  "edges drawn child -> parent")
m("m19b", ["C19"], D,
  "        df = df2[df2.Phase == list(phases.keys())[0]].copy()\n        df.update(pd.DataFrame(({\"Loss (W)\": avg})))\n",
  "        df = df2[df2.Phase == list(phases.keys())[0]].copy()\n",
  "heat diagram shows the first phase's loss instead of the weighted average")
m("m19c", ["C19"], D,
  "        return \"{}m\".format(round(f * 1e3, 3 - (4 + pwr)))\n",
  "        return \"{}m\".format(round(f * 1e3, 2 - (4 + pwr)))\n",
  "milli range rounded to two significant digits")
m("m19d", ["C19"], D,
  "                if sys._g.attrs[\"groups\"][n] == g:\n",
  "                if sys._g.attrs[\"groups\"][n].startswith(g):\n",
  "cluster membership by prefix (group 'Main' also collects 'Main 2')")
# ---- C20 -------------------------------------------------------------------------------------
m("m20a", ["C20"], U,
  "    a = 0.5 * (w1_mm + w2_mm) * t_mm / 1e3\n",
  "    a = 0.5 * (w1_mm + w1_mm) * t_mm / 1e3\n", "trace area from w1 only")
m("m20b", ["C20"], U,
  "    return (rs * l / w) * (1 + tcr * (temp - 20.0))\n",
  "    return (rs * l / w) * (1 + tcr * (temp - 25.0))\n", "plane resistance referenced to 25 C")
m("m20c", ["C20"], U,
  "    rs = rho / (t_mm / 1e3)\n", "    rs = rho / (t_mm / 1e3) if t_mm < 1e3 else rho / t_mm\n",
  "plane thickness above 1000 mm treated as metres")


# mutants that turned out to change nothing observable (kept as controls)
EQUIVALENT = {
    "m06b": "the Source's off state is decided once at start-up (_get_state) and propagated; "
            "the mutated branch is never reached with a live state",
    "m16d": "the old group entry is deleted on the line before, so the fallback is always ''",
}

# ---- second batch: restricted to circumstances the repository's tests do not sample --------
m("n01a", ["C01"], C,
  "        i = io + self._ipr._interp(abs(io), abs(vi[pinp]))\n        if phase_conf and phase not in phase_conf:\n            i = self._params[\"iis\"]\n        return i\n",
  "        i = io + self._ipr._interp(abs(io), abs(vi[pinp]))\n        if pinp > 1:\n            i = io\n        if phase_conf and phase not in phase_conf:\n            i = self._params[\"iis\"]\n        return i\n",
  "PMux draws no ground current when it runs from its third or fourth input")
m("n01b", ["C01"], C,
  "        v = min(abs(self._params[\"vo\"]), max(abs(vi[0]) - self._params[\"vdrop\"], 0.0))\n        if phase_conf and phase not in phase_conf:\n            return 0.0, STATE_OFF\n        if self._params[\"vo\"] >= 0.0:\n            return v, STATE_DEFAULT\n        return -v, STATE_DEFAULT\n",
  "        v = min(abs(self._params[\"vo\"]), max(abs(vi[0]) - self._params[\"vdrop\"], 0.0))\n        if phase_conf and phase not in phase_conf:\n            return 0.0, STATE_OFF\n        if self._params[\"vo\"] >= 0.0:\n            return v, STATE_DEFAULT\n        return -min(abs(self._params[\"vo\"]), abs(vi[0])), STATE_DEFAULT\n",
  "a negative LinReg ignores its dropout voltage")
m("n02a", ["C02"], C,
  "            loss = abs(ii * vi * (1.0 - self._ipr._interp(abs(io), abs(vi))))\n",
  "            loss = abs(ii * vi * (1.0 - self._ipr._interp(abs(io), abs(vi)))) if vi > 0 else abs(\n                io * self._params[\"vo\"] * (1.0 / self._ipr._interp(abs(io), abs(vi)) - 1.0)) * 0.99\n",
  "Converter loss 1 % low on a negative input rail")
m("n02b", ["C02"], C,
  "        pi = abs(vi * ii)\n        tr = pi * self._params[\"rt\"]\n",
  "        pi = abs(vi * ii)\n        tr = pi * self._params[\"rt\"] if not (self._params[\"loss\"] and ta < 0) else 0.0\n",
  "a load counted as loss does not heat up at sub-zero ambient")
m("n04a", ["C04"], C,
  "        if phase_conf and phase not in phase_conf:\n            i = self._params[\"iis\"]\n        return i\n\n    def _solv_outp_volt(self, vi, ii, io, phase, phase_conf=[], pstate={}):\n        \"\"\"Calculate PMux",
  "        if phase_conf and phase not in phase_conf:\n            i = self._params[\"iis\"] if pinp == 0 else 0.0\n        return i\n\n    def _solv_outp_volt(self, vi, ii, io, phase, phase_conf=[], pstate={}):\n        \"\"\"Calculate PMux",
  "an inactive PMux draws its sleep current only from its first input")
m("n05a", ["C05"], C,
  "        for i in range(len(pstate[\"off\"])):\n",
  "        for i in range(min(len(pstate[\"off\"]), 3)):\n",
  "PMux never selects its fourth input")
m("n05b", ["C05"], SY,
  "                if abs(vin[i]) != 0.0:\n                    idx = i\n",
  "                if abs(vin[i]) != 0.0 and (i < 2 or vin[i] > 0.0):\n                    idx = i\n",
  "PMux domain ignores a negative third/fourth input")
m("n10a", ["C10"], C,
  "        return np.interp(np.abs(x), self._x, self._fx)\n",
  "        return np.interp(np.abs(x), self._x, self._fx) if len(self._x) < 6 else np.interp(\n            np.abs(x), self._x[:-1], self._fx[:-1])\n",
  "1-D tables with six io points lose their last point")
m("n10b", ["C10"], C,
  "        yc = min(max(y, self._ymin), self._ymax)\n",
  "        yc = min(max(y, self._ymin), self._ymax) if x <= self._xmax else self._ymin\n",
  "2-D lookup beyond the largest io uses the lowest vi row")


def run(cmd, env=None, timeout=3600):
    t0 = time.time()
    try:
        p = subprocess.run(cmd, shell=True, capture_output=True, text=True, env=env,
                           timeout=timeout)
        return p.returncode, p.stdout + p.stderr, time.time() - t0
    except subprocess.TimeoutExpired:
        return 124, "timeout", time.time() - t0


def do_mutant(mu, tier="quick"):
    d = "/tmp/planted_{}".format(mu["id"])
    shutil.rmtree(d, ignore_errors=True)
    os.makedirs(d)
    res = {"id": mu["id"], "what": mu["what"], "checks": {}}
    if mu["id"] in EQUIVALENT:
        res["equivalent"] = EQUIVALENT[mu["id"]]
    try:
        shutil.copytree("/repo/src", d + "/src")
        shutil.copytree("/repo/tests", d + "/tests")
        shutil.copy("/repo/pyproject.toml", d + "/pyproject.toml")
        p = "{}/src/sysloss/{}".format(d, mu["file"])
        s = open(p, newline="").read()
        old = mu["old"].replace("\n", "\r\n")
        new = mu["new"].replace("\n", "\r\n")
        if not mu["old"] or s.count(old) != 1:
            res["status"] = "pattern_count_{}".format(s.count(old) if mu["old"] else 0)
            return res
        open(p, "w", newline="").write(s.replace(old, new))
        env = dict(os.environ, PYTHONPATH=d + "/src", MPLBACKEND="Agg")
        rc, out, wall = run("cd {} && /venv/bin/python -m pytest -q -p no:cacheprovider -x "
                            "--benchmark-disable 2>&1 | tail -3".format(d), env)
        if " passed" not in out or "failed" in out or "error" in out.lower():
            res["status"] = "tests_fail"
            res["tests"] = out[-300:]
            return res
        res["status"] = "tests_pass"
        env2 = dict(os.environ, SYSLOSS_SRC=d + "/src", VERIF_SEED="1", VERIF_NOSHRINK="1")
        for chk in mu["checks"]:
            rc, out, wall = run("cd {} && /venv/bin/python check.py {} --tier {}".format(
                HERE, chk, tier), env2)
            sig = ""
            for line in out.splitlines():
                if "sig=" in line:
                    sig = line.strip()[:200]
                    break
            res["checks"][chk] = {"exit": rc, "caught": rc == 1, "wall_s": round(wall, 1),
                                  "first": sig}
        return res
    finally:
        shutil.rmtree(d, ignore_errors=True)


def main():
    args = [a for a in sys.argv[1:] if not a.startswith("--")]
    jobs = 6
    for a in sys.argv[1:]:
        if a.startswith("--jobs="):
            jobs = int(a.split("=")[1])
    todo = [mu for mu in M if (not args or mu["id"] in args or any(
        mu["id"].startswith(a) for a in args)) and mu["id"] != "m01d"]
    out_path = os.path.join(HERE, "tools", "planted_results.json")
    results = {}
    if os.path.exists(out_path):
        results = {r["id"]: r for r in json.load(open(out_path))}
    with ThreadPoolExecutor(jobs) as ex:
        for r in ex.map(do_mutant, todo):
            results[r["id"]] = r
            c = {k: ("CAUGHT" if v["caught"] else "missed(exit {})".format(v["exit"]))
                 for k, v in r["checks"].items()}
            print(r["id"], r["status"], c, flush=True)
            json.dump(sorted(results.values(), key=lambda x: x["id"]), open(out_path, "w"),
                      indent=1)


if __name__ == "__main__":
    main()
